#!/usr/bin/env python3
"""Prototype: bounded symbolic execution of rustc MIR text (feasibility probe for DESIGN.md).
DART-style re-execution: each path is replayed from the start following a decision prefix;
z3 decides feasibility of every new branch and the property at path end."""
import re, sys, time
import z3

# ---------------------------------------------------------------- MIR parsing
class Fn:
    def __init__(self, name, nargs, blocks, locals_):
        self.name, self.nargs, self.blocks, self.locals = name, nargs, blocks, locals_

def split_top(s, sep=','):
    out, depth, cur, instr, i = [], 0, '', None, 0
    while i < len(s):
        c = s[i]
        if instr:
            cur += c
            if c == '\\': cur += s[i+1]; i += 1
            elif c == instr: instr = None
        elif c in '"':
            instr = c; cur += c
        elif c == "'" and re.match(r"'(\\.|[^'\\])'", s[i:]):
            m = re.match(r"'(\\.|[^'\\])'", s[i:]); cur += m.group(0); i += len(m.group(0)) - 1
        elif c in '([{<' and not (c == '<' and s[i-1:i+1] in ('<<',) ):
            depth += 1; cur += c
        elif c in ')]}' or (c == '>' and s[i-1] not in '-='):
            depth -= 1; cur += c
        elif c == sep and depth == 0:
            out.append(cur.strip()); cur = ''
        else:
            cur += c
        i += 1
    if cur.strip(): out.append(cur.strip())
    return out

def parse_mir(text):
    fns = {}
    for m in re.finditer(r'^fn (.+?)\((.*?)\) -> (.+?) \{\n(.*?)^\}\n', text, re.S | re.M):
        name, args, ret, body = m.group(1), m.group(2), m.group(3), m.group(4)
        nargs = len(re.findall(r'_\d+: ', args))
        blocks = {}
        for bm in re.finditer(r'^    bb(\d+)( \(cleanup\))?: \{\n(.*?)^    \}\n', body, re.S | re.M):
            lines = [l.strip() for l in bm.group(3).split('\n') if l.strip()]
            blocks[int(bm.group(1))] = lines
        fns[name] = Fn(name, nargs, blocks, None)
    return fns

# ---------------------------------------------------------------- values
class Panic(Exception): pass
class Infeasible(Exception): pass
class Unsupported(Exception): pass

class Str:            # &str / String contents: buffer slice with concrete bounds
    def __init__(self, buf, s=0, e=None):
        self.buf, self.s, self.e = buf, s, (len(buf) if e is None else e)
    def bytes(self): return self.buf[self.s:self.e]
    def __len__(self): return self.e - self.s
class StringV:        # owned String
    def __init__(self): self.data = []
class Adt:
    def __init__(self, name, variant, fields): self.name, self.variant, self.fields = name, variant, fields
    def __repr__(self): return f'{self.name}#{self.variant}{self.fields}'
class Tup(list): pass
class Ref:
    def __init__(self, cell, path=()): self.cell, self.path = cell, path
class Cell:
    def __init__(self, v=None): self.v = v
class Closure:
    def __init__(self, fn, fields): self.fn, self.fields = fn, fields
class BytesIter:
    def __init__(self, s): self.s, self.i = s, 0
class EnumIter:
    def __init__(self, it): self.it, self.n = it, 0

def is_sym(x): return isinstance(x, z3.ExprRef)
BV = lambda v, w=64: v if is_sym(v) else z3.BitVecVal(v, w)

class Machine:
    def __init__(self, fns, overflow_checks=True):
        self.fns = fns
        self.solver = z3.Solver()
        self.decisions = []     # prefix to follow
        self.pos = 0
        self.pc = []
        self.stats = dict(solver_calls=0, solver_s=0.0, steps=0)

    # --- branching
    def branch(self, cond):
        """cond: python bool or z3 Bool. Returns python bool (the side taken on this run)."""
        if isinstance(cond, bool): return cond
        cond = z3.simplify(cond)
        if z3.is_true(cond): return True
        if z3.is_false(cond): return False
        if self.pos < len(self.decisions):
            d = self.decisions[self.pos][0]
        else:
            # new branch point: prefer True if feasible
            t = self.feasible(cond); f = self.feasible(z3.Not(cond))
            if t and f: self.decisions.append([True, True])     # [taken, other side pending]
            elif t: self.decisions.append([True, False])
            elif f: self.decisions.append([False, False])
            else: raise Infeasible()
            d = self.decisions[self.pos][0]
        self.pos += 1
        c = cond if d else z3.Not(cond)
        self.pc.append(c); self.solver.add(c)
        return d

    def feasible(self, c):
        t0 = time.time()
        self.solver.push(); self.solver.add(c)
        r = self.solver.check()
        self.solver.pop()
        self.stats['solver_calls'] += 1; self.stats['solver_s'] += time.time() - t0
        return r == z3.sat

    def choose(self, n):
        """concrete nondeterministic choice among n alternatives, via binary branching"""
        for i in range(n - 1):
            b = z3.Bool(f'choice_{self.pos}')
            if self.branch(b): return i
        return n - 1

    # --- operand / place evaluation
    def run_fn(self, name, args):
        fn = self.fns[name]
        locs = {}
        for i, a in enumerate(args): locs[i + 1] = Cell(a)
        bb = 0
        while True:
            lines = fn.blocks[bb]
            for ln in lines[:-1]:
                self.stats['steps'] += 1
                self.exec_stmt(ln, locs)
            term = lines[-1]
            self.stats['steps'] += 1
            r = self.exec_term(term, locs)
            if r[0] == 'ret': return locs[0].v if 0 in locs else None
            bb = r[1]

    def cell(self, locs, n):
        if n not in locs: locs[n] = Cell()
        return locs[n]

    def place(self, s, locs):
        """returns (cell, path) for a place expression"""
        s = s.strip()
        m = re.fullmatch(r'_(\d+)', s)
        if m: return self.cell(locs, int(m.group(1))), ()
        if s.startswith('(') and s.endswith(')'):
            inner = s[1:-1]
            # (*X)  |  (X.N: T)  |  (X as Variant)
            if inner.startswith('*'):
                c, p = self.place(inner[1:], locs)
                r = self.load(c, p)
                if not isinstance(r, Ref): return Cell(r), ()
                return r.cell, r.path
            m = re.match(r'(.*) as (\w+)$', inner)
            if m and not re.search(r':', m.group(2)):
                c, p = self.place(m.group(1), locs); return c, p + (('as', m.group(2)),)
            # field: find last '.N:' at depth 0
            depth = 0
            for i in range(len(inner)):
                ch = inner[i]
                if ch in '([{<': depth += 1
                elif ch in ')]}>': depth -= 1
                elif ch == ':' and depth == 0 and inner[i+1] == ' ':
                    base_field = inner[:i]
                    k = base_field.rfind('.')
                    c, p = self.place(base_field[:k], locs)
                    return c, p + (int(base_field[k+1:]),)
            raise Unsupported('place ' + s)
        m = re.fullmatch(r'(.*)\[_(\d+)\]', s)
        if m:
            c, p = self.place(m.group(1), locs)
            idx = self.cell(locs, int(m.group(2))).v
            return c, p + (('idx', idx),)
        if s.startswith('*'):
            c, p = self.place(s[1:], locs); r = self.load(c, p)
            if not isinstance(r, Ref): return Cell(r), ()
            return r.cell, r.path
        raise Unsupported('place ' + s)

    def load(self, cell, path):
        v = cell.v
        for p in path:
            if isinstance(p, tuple) and p[0] == 'as': continue
            if isinstance(p, tuple) and p[0] == 'idx':
                i = p[1]
                assert isinstance(i, int), 'symbolic index'
                v = v.bytes()[i] if isinstance(v, Str) else v[i]
            elif isinstance(v, Adt): v = v.fields[p]
            elif isinstance(v, Closure): v = v.fields[p]
            else: v = v[p]
        return v

    def store(self, cell, path, val):
        if not path: cell.v = val; return
        v = cell.v
        for p in path[:-1]:
            if isinstance(p, tuple) and p[0] == 'as': continue
            v = v.fields[p] if isinstance(v, (Adt, Closure)) else v[p]
        p = path[-1]
        if isinstance(v, (Adt, Closure)): v.fields[p] = val
        else: v[p] = val

    def operand(self, s, locs):
        s = s.strip()
        for pre in ('copy ', 'move ', 'no_retag '):
            if s.startswith(pre): return self.operand(s[len(pre):], locs)
        if s.startswith('const '): return self.const(s[6:])
        c, p = self.place(s, locs)
        return self.load(c, p)

    def const(self, s):
        s = s.strip()
        if s == 'true': return True
        if s == 'false': return False
        m = re.fullmatch(r'(-?\d+)_(u|i)(\d+|size)', s)
        if m: return int(m.group(1))
        m = re.fullmatch(r"'(.*)'", s)
        if m: return ord(eval("'" + m.group(1) + "'"))
        m = re.fullmatch(r'"(.*)"', s, re.S)
        if m: return Str(list(eval('b"' + m.group(1) + '"')))
        raise Unsupported('const ' + s)

    # --- statements
    def exec_stmt(self, ln, locs):
        if ln.startswith(('StorageLive', 'StorageDead', 'nop', 'FakeRead', 'PlaceMention', 'Retag', 'AscribeUserType', 'Coverage', 'ConstEvalCounter')): return
        assert ln.endswith(';'), ln
        lhs, rhs = ln[:-1].split(' = ', 1)
        val = self.rvalue(rhs, locs)
        c, p = self.place(lhs, locs)
        self.store(c, p, val)

    BIN = {'Add': lambda a, b: a + b, 'Sub': lambda a, b: a - b, 'Mul': lambda a, b: a * b}
    def rvalue(self, r, locs):
        m = re.fullmatch(r'(\w+)\((.*)\)', r)
        if m and m.group(1) in ('Eq', 'Ne', 'Lt', 'Le', 'Gt', 'Ge', 'Add', 'Sub', 'AddWithOverflow', 'SubWithOverflow', 'BitAnd', 'BitOr', 'Not'):
            op = m.group(1); args = [self.operand(a, locs) for a in split_top(m.group(2))]
            return self.binop(op, args)
        if r.startswith('discriminant('):
            v = self.operand(r[13:-1], locs); return v.variant
        if r.startswith('PtrMetadata('):
            v = self.operand(r[12:-1], locs); return len(v)
        if r.startswith('&mut ') or r.startswith('&'):
            c, p = self.place(r[5:] if r.startswith('&mut ') else r[1:], locs)
            return Ref(c, p)
        m = re.fullmatch(r'\((.*)\)', r)
        if m and not r.startswith('(*') and not re.match(r'\(_\d+\.\d+: ', r) and ' as ' not in r.split(',')[0]:
            return Tup(self.operand(a, locs) for a in split_top(m.group(1)))
        m = re.fullmatch(r'(\{closure@[^}]*\}) \{(.*)\}', r)
        if m:
            fields = [self.operand(f.split(': ', 1)[1], locs) for f in split_top(m.group(2))]
            return Closure(m.group(1), fields)
        m = re.fullmatch(r'([\w:<>, ]+?) \{ (.*) \}', r)
        if m:
            fields = [self.operand(f.split(': ', 1)[1], locs) for f in split_top(m.group(2))]
            return Adt(m.group(1), 0, fields)
        return self.operand(r, locs)

    def binop(self, op, a):
        x = a[0]; y = a[1] if len(a) > 1 else None
        sym = is_sym(x) or is_sym(y)
        if not sym:
            if op == 'Eq': return x == y
            if op == 'Ne': return x != y
            if op == 'Lt': return x < y
            if op == 'Le': return x <= y
            if op == 'Gt': return x > y
            if op == 'Ge': return x >= y
            if op == 'AddWithOverflow':
                s = x + y; return Tup([s % 2**64, s >= 2**64])
            if op == 'SubWithOverflow':
                s = x - y; return Tup([s % 2**64, s < 0])
            if op == 'Add': return (x + y) % 2**64
            if op == 'Sub': return (x - y) % 2**64
            if op == 'Not': return (not x)
        else:
            w = (x if is_sym(x) else y).size() if not z3.is_bool(x if is_sym(x) else y) else None
            if w: X, Y = BV(x, w), BV(y, w)
            if op == 'Eq': return X == Y
            if op == 'Ne': return X != Y
            if op == 'Lt': return z3.ULT(X, Y)
            if op == 'Le': return z3.ULE(X, Y)
            if op == 'Not': return z3.Not(x)
        raise Unsupported(f'binop {op} {a}')

    # --- terminators
    def exec_term(self, t, locs):
        if t == 'return;': return ('ret',)
        m = re.fullmatch(r'goto -> bb(\d+);', t)
        if m: return ('goto', int(m.group(1)))
        if t.startswith('unreachable'): raise Unsupported('unreachable reached')
        m = re.fullmatch(r'switchInt\((.*)\) -> \[(.*)\];', t)
        if m:
            v = self.operand(m.group(1), locs)
            targets = split_top(m.group(2))
            other = None
            for tg in targets:
                k, bb = tg.split(': ')
                bb = int(bb[2:])
                if k == 'otherwise': other = bb; continue
                k = int(k)
                if isinstance(v, bool) or z3.is_bool(v) if is_sym(v) else isinstance(v, bool):
                    cond = (v == bool(k)) if isinstance(v, bool) else (v if k else z3.Not(v))
                else:
                    cond = (v == k)
                if self.branch(cond): return ('goto', bb)
            return ('goto', other)
        m = re.fullmatch(r'assert\((!?)(.*?), "(.*?)"(.*)\) -> \[success: bb(\d+), unwind.*\];', t)
        if m:
            v = self.operand(m.group(2), locs)
            if m.group(1): v = (not v) if isinstance(v, bool) else z3.Not(v)
            if self.branch(v): return ('goto', int(m.group(5)))
            raise Panic(m.group(3))
        m = re.fullmatch(r'drop\(.*\) -> \[return: bb(\d+), .*\];', t)
        if m: return ('goto', int(m.group(1)))
        m = re.fullmatch(r'(.*?) = (.*)\((.*)\) -> \[return: bb(\d+), unwind.*\];', t)
        if m:
            lhs, callee, args, bb = m.group(1), m.group(2), m.group(3), int(m.group(4))
            argv = [self.operand(a, locs) for a in split_top(args)]
            res = self.call(callee, argv)
            c, p = self.place(lhs, locs); self.store(c, p, res)
            return ('goto', bb)
        raise Unsupported('term ' + t)

    # --- calls: crate functions interpreted, std functions modelled
    def call(self, callee, a):
        if callee in self.fns: return self.run_fn(callee, a)
        short = callee.replace('utils::', '')
        if short in self.fns: return self.run_fn(short, a)
        f = MODELS.get(callee)
        if f is None:
            for pat, g in PATTERNS:
                if re.fullmatch(pat, callee): f = g; break
        if f is None: raise Unsupported('call ' + callee)
        return f(self, *a)

def some(v): return Adt('Option', 1, [v])
NONE = Adt('Option', 0, [])

def m_find_char(M, s, ch):
    b = s.bytes()
    for i, x in enumerate(b):
        if M.branch(x == ch if not is_sym(x) else x == z3.BitVecVal(ch, 8)): return some(i)
    return NONE

def char_boundary(M, s, i):
    # panics (str::slice_error_fail) if i is not on a char boundary or out of range
    if i > len(s): raise Panic('str slice out of range')
    if i == len(s) or i == 0: return
    x = s.bytes()[i]
    # boundary iff (x as i8) >= -0x40  i.e. not 0b10xxxxxx
    cont = ((x & 0xC0) == 0x80) if not is_sym(x) else (x & 0xC0) == 0x80
    if M.branch(cont): raise Panic('str slice not on char boundary')

def m_index_from(M, s, r):
    st = r.fields[0]
    if is_sym(st): raise Unsupported('symbolic range')
    char_boundary(M, s, st)
    return Str(s.buf, s.s + st, s.e)
def m_index_to(M, s, r):
    e = r.fields[0]; char_boundary(M, s, e); return Str(s.buf, s.s, s.s + e)
def m_index_range(M, s, r):
    st, e = r.fields
    if st > e: raise Panic('slice index starts after end')
    char_boundary(M, s, st); char_boundary(M, s, e); return Str(s.buf, s.s + st, s.s + e)

def m_all(M, itref, clo):
    it = M.load(itref.cell, itref.path)
    b = it.it.s.bytes()
    while it.it.i < len(b):
        x = b[it.it.i]; it.it.i += 1; n = it.n; it.n += 1
        envcell = Cell(clo)
        r = M.run_fn(clo_name(M, clo), [Ref(envcell), Tup([n, x])])
        if not M.branch(r): return False
    return True

def clo_name(M, clo):
    # closure fn names: "<parent>::{closure#k}" ; resolve via source span recorded at parse time
    return M.closure_map[clo.fn]

MODELS = {
    'core::str::<impl str>::len': lambda M, s: len(s),
    'core::str::<impl str>::is_empty': lambda M, s: len(s) == 0,
    'core::str::<impl str>::find::<char>': m_find_char,
    'core::str::<impl str>::as_bytes': lambda M, s: s,
    'core::str::<impl str>::bytes': lambda M, s: BytesIter(s),
    "<std::str::Bytes<'_> as Iterator>::enumerate": lambda M, it: EnumIter(it),
    '<str as std::ops::Index<std::ops::RangeFrom<usize>>>::index': m_index_from,
    '<str as std::ops::Index<RangeTo<usize>>>::index': m_index_to,
    '<str as std::ops::Index<std::ops::Range<usize>>>::index': m_index_range,
}
PATTERNS = [
    (r"<std::iter::Enumerate<std::str::Bytes<'_>> as Iterator>::all::<.*>", m_all),
]

def build_closure_map(text):
    cm = {}
    for m in re.finditer(r'^fn (.+?::\{closure#\d+\})\(_1: &(?:mut )?(\{closure@[^}]*\})', text, re.M):
        cm[m.group(2)] = m.group(1)
    return cm

# ---------------------------------------------------------------- driver: explore all paths
def explore(fns, cmap, entry, mkargs, on_path, max_paths=10**6):
    decisions = []
    n = 0
    agg = dict(solver_calls=0, solver_s=0.0, steps=0)
    while True:
        M = Machine(fns); M.closure_map = cmap
        M.decisions = decisions
        args = mkargs(M)
        try:
            r = M.run_fn(entry, args); out = ('ok', r)
        except Panic as e:
            out = ('panic', str(e))
        on_path(M, args, out)
        for k in agg: agg[k] += M.stats[k]
        n += 1
        # backtrack
        decisions = M.decisions[:M.pos] if M.pos < len(M.decisions) else M.decisions
        while decisions and not decisions[-1][1]: decisions.pop()
        if not decisions or n >= max_paths: break
        decisions[-1] = [not decisions[-1][0], False]
    return n, agg

def glob_ref(p, t):
    """reference glob semantics as a z3 Bool over byte lists (DP)"""
    T = z3.BoolVal(True); F = z3.BoolVal(False)
    dp = [T] + [F] * len(t)
    for c in p:
        nd = [F] * (len(t) + 1)
        star = (c == 42); q = (c == 63)
        acc = F
        for j in range(len(t) + 1):
            acc = z3.Or(acc, dp[j])
            lit = z3.And(dp[j - 1], z3.Or(q, c == t[j - 1])) if j > 0 else F
            nd[j] = z3.If(star, acc, lit)
        dp = nd
    return dp[len(t)]

if __name__ == '__main__':
    text = open(sys.argv[1]).read()
    a = text.index('fn starts_single_wilcards('); b = text.index('fn utils::normalize_sourcemask')
    sub = text[a:b]
    fns = parse_mir(sub); cmap = build_closure_map(sub)
    PL, TL = int(sys.argv[2]), int(sys.argv[3])
    ascii_only = len(sys.argv) < 5
    tot = dict(paths=0, panics=0, mismatch=0); t0 = time.time()
    found = {}
    for pl in range(PL + 1):
        for tl in range(TL + 1):
            pb = [z3.BitVec(f'p{i}', 8) for i in range(pl)]
            tb = [z3.BitVec(f't{i}', 8) for i in range(tl)]
            def mkargs(M):
                if ascii_only:
                    for x in pb + tb: M.solver.add(z3.ULT(x, 128))
                return [Str(pb), Str(tb)]
            ref = glob_ref(pb, tb)
            def on_path(M, args, out):
                tot['paths'] += 1
                if out[0] == 'panic':
                    tot['panics'] += 1
                    if out[1] not in found and M.solver.check() == z3.sat:
                        md = M.solver.model()
                        found[out[1]] = (bytes(md.eval(x, True).as_long() for x in pb), bytes(md.eval(x, True).as_long() for x in tb))
                else:
                    r = out[1]
                    rz = z3.BoolVal(r) if isinstance(r, bool) else r
                    M.solver.push(); M.solver.add(rz != ref)
                    if M.solver.check() == z3.sat:
                        tot['mismatch'] += 1
                        md = M.solver.model()
                        key = 'mismatch'
                        if key not in found:
                            found[key] = (bytes(md.eval(x, True).as_long() for x in pb), bytes(md.eval(x, True).as_long() for x in tb), r)
                    M.solver.pop()
            n, agg = explore(fns, cmap, 'utils::match_wildcard', mkargs, on_path)
    print(tot, f'{time.time()-t0:.1f}s')
    for k, v in found.items(): print(k, v)
