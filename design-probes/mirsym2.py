#!/usr/bin/env python3
"""Feasibility probe v2 (handler level): symbolic execution of async handler coroutines from rustc MIR text.
Not framework code: exists to validate DESIGN.md claims (coroutines, containers, fmt, name resolution)."""
import re, sys, time, os
import z3

SRC_ROOT = '/var/tmp/probe/p1/'

# ------------------------------------------------------------------ loading
def strip_comment(l):
    l = re.sub(r'\s+// (scope|in scope|mir::|\+ |return place|closure|coroutine).*$', '', l)
    return l

class Fn:
    def __init__(self, name, sig, body):
        self.name, self.sig, self.body = name, sig, body
        self.blocks = None; self.types = {}
    def parse(self):
        if self.blocks is not None: return
        self.blocks = {}
        cur = None
        for l in self.body:
            s = l.strip()
            if not s or s.startswith('//'): continue
            m = re.match(r'bb(\d+)( \(cleanup\))?: \{$', s)
            if m: cur = []; self.blocks[int(m.group(1))] = cur; continue
            if s == '}': cur = None; continue
            if cur is not None: cur.append(s)
            else:
                m = re.match(r'let (mut )?_(\d+): (.*);$', s)
                if m: self.types[int(m.group(2))] = m.group(3)

def load(path):
    fns = {}
    cur = None
    for raw in open(path):
        l = strip_comment(raw.rstrip('\n'))
        if raw.startswith('fn ') and raw.rstrip().endswith('{'):
            m = re.match(r'fn (.*?)\((_1: |\))', l)
            name = m.group(1)
            cur = Fn(name, l, []); fns[name] = cur
        elif raw.startswith('}'):
            cur = None
        elif cur is not None:
            cur.body.append(l)
    return fns

# impl-span -> (selftype, trait)
_srccache = {}
def impl_header(span):
    m = re.match(r'(.*?):(\d+):(\d+): (\d+):(\d+)', span)
    f, l1, c1, l2, c2 = m.group(1), int(m.group(2)), int(m.group(3)), int(m.group(4)), int(m.group(5))
    if f not in _srccache: _srccache[f] = open(f if f.startswith('/') else SRC_ROOT + f).read().split('\n')
    lines = _srccache[f]
    txt = lines[l1 - 1][c1 - 1:] if l1 != l2 else lines[l1 - 1][c1 - 1:c2 - 1]
    if txt.startswith('impl'):
        txt = re.sub(r"^impl(<[^>]*>)?\s*", '', txt)
        m = re.match(r'(.*?) for (.*)', txt)
        tr, ty = (m.group(1), m.group(2)) if m else (None, txt)
        last = lambda s: re.sub(r'<.*', '', s.strip()).split('::')[-1].strip(' {')
        return last(ty), (last(tr) if tr else None)
    # derive: trait name is txt; type is next struct/enum
    for k in range(l1 - 1, min(l1 + 30, len(lines))):
        m = re.search(r'\b(struct|enum)\s+(\w+)', lines[k])
        if m: return m.group(2), txt.strip()
    return None, txt

def strip_generics(c):
    out = ''; i = 0
    while i < len(c):
        if c.startswith('::<', i):
            j = i + 3; d = 1
            while d:
                if c[j] == '<': d += 1
                elif c[j] == '>' and c[j-1] != '-': d -= 1
                j += 1
            i = j
        else:
            out += c[i]; i += 1
    return out

class Resolver:
    def __init__(self, fns):
        self.fns = fns; self.index = {}
        for name in fns:
            m = re.match(r'(.*?)<impl at ([^>]*)>::(\w+)((::\{closure#\d+\})*)$', name)
            if m and not m.group(4):
                ty, tr = impl_header(m.group(2))
                self.index.setdefault((ty, tr, m.group(3)), []).append(name)
    def resolve(self, callee):
        c = re.sub(r"::<.*>$", '', callee) if not callee.startswith('<') else callee
        if c in self.fns: return c
        m = re.match(r"<(.*) as (.*?)>::(\w+)(::<.*>)?$", callee)
        if m:
            ty = re.sub(r"<.*", '', m.group(1).lstrip('&').replace('mut ', '')).split('::')[-1]
            tr = re.sub(r"<.*", '', m.group(2)).split('::')[-1]
            r = self.index.get((ty, tr, m.group(3)))
            return r[0] if r else None
        m = re.match(r"(.*)::<impl (.*?)>::(\w+)(::<.*>)?$", callee)
        if m:
            ty = re.sub(r"<.*", '', m.group(2)).split('::')[-1]
            r = self.index.get((ty, None, m.group(3)))
            return r[0] if r else None
        c2 = strip_generics(callee)
        if c2 in self.fns: return c2
        parts = c2.split('::')
        if len(parts) >= 2:
            r = self.index.get((parts[-2], None, parts[-1]))
            if r: return r[0]
        return None

# ------------------------------------------------------------------ values
class Panic(Exception): pass
class Infeasible(Exception): pass
class Unsupported(Exception): pass

class Cell:
    __slots__ = ('v',)
    def __init__(self, v=None): self.v = v
class Ref:
    __slots__ = ('cell', 'path')
    def __init__(self, cell, path=()): self.cell, self.path = cell, path
class Str:
    def __init__(self, buf, s=0, e=None): self.buf, self.s, self.e = buf, s, (len(buf) if e is None else e)
    def bytes(self): return self.buf[self.s:self.e]
    def __len__(self): return self.e - self.s
    def py(self):
        b = self.bytes(); return bytes(b).decode() if all(isinstance(x, int) for x in b) else None
    def __repr__(self): return 'Str(%r)' % (self.py(),)
class StringV:
    def __init__(self, data=None): self.data = list(data or [])
    def __repr__(self): return 'String(%r)' % (bytes(x if isinstance(x, int) else 63 for x in self.data),)
class Adt:
    def __init__(self, name, variant, fields): self.name, self.variant, self.fields = name, variant, fields
    def __repr__(self): return f'{self.name.split("::")[-1]}#{self.variant}{self.fields}'
class Tup(list): pass
class Coroutine:
    def __init__(self, body, upvars): self.body, self.up, self.state, self.vf = body, upvars, 0, {}
class Closure:
    def __init__(self, fn, fields): self.fn, self.fields = fn, fields
class Opaque:
    def __init__(self, n): self.n = n
    def __repr__(self): return f'<{self.n}>'
class VecV:
    def __init__(self, items=None): self.items = [Cell(x) for x in (items or [])]
class HMap:      # slots: [key(str), live(bool|z3), Cell(value)]
    def __init__(self): self.slots = []
    def find(self, k):
        for s in self.slots:
            if s[0] == k: return s
        return None
class Iter:
    def __init__(self, gen): self.gen = gen

VARIANTS = {'Some': 1, 'None': 0, 'Ok': 0, 'Err': 1, 'Ready': 0, 'Pending': 1, 'Continue': 0, 'Break': 1}
def some(v): return Adt('Option', 1, [v])
NONE = lambda: Adt('Option', 0, [])
def is_sym(x): return isinstance(x, z3.ExprRef)
def cp(v):
    if isinstance(v, Tup): return Tup(cp(x) for x in v)
    if isinstance(v, Adt): return Adt(v.name, v.variant, [cp(x) for x in v.fields])
    return v

def skip_balanced(s, i, stop):
    """advance from i until one of stop chars at depth 0"""
    depth = 0
    while i < len(s):
        c = s[i]
        if c in '([{<': depth += 1
        elif c in ')]}' or (c == '>' and s[i - 1] != '-' and s[i - 1] != '='):
            if depth == 0 and c in stop: return i
            depth -= 1
        elif depth == 0 and c in stop: return i
        i += 1
    return i

def split_top(s):
    out, i, start = [], 0, 0
    depth = 0; n = len(s)
    while i < n:
        c = s[i]
        if c == '"' or (c == 'b' and s[i+1:i+2] == '"'):
            j = i + (2 if c == 'b' else 1)
            while s[j] != '"':
                if s[j] == '\\': j += 1
                j += 1
            i = j
        elif c == "'" and re.match(r"'(\\.|[^'\\])'", s[i:]):
            i += len(re.match(r"'(\\.|[^'\\])'", s[i:]).group(0)) - 1
        elif c in '([{<': depth += 1
        elif c in ')]}' or (c == '>' and s[i - 1] not in '-='): depth -= 1
        elif c == ',' and depth == 0:
            out.append(s[start:i].strip()); start = i + 1
        i += 1
    if s[start:].strip(): out.append(s[start:].strip())
    return out

# ------------------------------------------------------------------ machine
class Machine:
    def __init__(self, fns, res, enums):
        self.fns, self.res, self.enums = fns, res, enums
        self.solver = z3.Solver(); self.decisions = []; self.pos = 0
        self.stats = dict(steps=0, solver_calls=0)
        self.depth = 0
    def branch(self, cond):
        if isinstance(cond, bool): return cond
        cond = z3.simplify(cond)
        if z3.is_true(cond): return True
        if z3.is_false(cond): return False
        if self.pos >= len(self.decisions):
            t = self.feasible(cond); f = self.feasible(z3.Not(cond))
            if t and f: self.decisions.append([True, True])
            elif t: self.decisions.append([True, False])
            elif f: self.decisions.append([False, False])
            else: raise Infeasible()
        d = self.decisions[self.pos][0]; self.pos += 1
        self.solver.add(cond if d else z3.Not(cond))
        return d
    def feasible(self, c):
        self.solver.push(); self.solver.add(c); r = self.solver.check(); self.solver.pop()
        self.stats['solver_calls'] += 1
        return r == z3.sat

    # places -----------------------------------------------------------
    def parse_place(self, s, i, locs):
        """returns (cell, path, j)"""
        if s[i] == '(':
            if s[i + 1] == '*':
                c, p, j = self.parse_place(s, i + 2, locs); assert s[j] == ')', s
                c, p = self.deref(c, p); j += 1
            else:
                c, p, j = self.parse_place(s, i + 1, locs)
                if s[j:j + 4] == ' as ':
                    k = s.index(')', j); p = p + (('as', s[j + 4:k]),); j = k + 1
                elif s[j] == '.':
                    m = re.match(r'\.(\d+): ', s[j:]); idx = int(m.group(1))
                    k = skip_balanced(s, j + len(m.group(0)), ')')
                    p = p + (idx,); j = k + 1
                else: raise Unsupported('place ' + s)
        elif s[i] == '*':
            c, p, j = self.parse_place(s, i + 1, locs); c, p = self.deref(c, p)
        else:
            m = re.match(r'_(\d+)', s[i:]); n = int(m.group(1))
            if n not in locs: locs[n] = Cell()
            c, p, j = locs[n], (), i + len(m.group(0))
        while j < len(s) and s[j] == '[':
            m = re.match(r'\[_(\d+)\]', s[j:])
            p = p + (('idx', locs[int(m.group(1))].v),); j += len(m.group(0))
        return c, p, j
    def place(self, s, locs):
        c, p, j = self.parse_place(s, 0, locs)
        assert j == len(s), (s, j)
        return c, p
    def deref(self, c, p):
        r = self.load(c, p)
        if isinstance(r, Ref): return r.cell, r.path
        return Cell(r), ()         # fat values (&str) deref to themselves
    def step(self, v, p):
        if isinstance(p, tuple):
            if p[0] == 'as':
                return ('variant', v, p[1])
            i = p[1]; assert isinstance(i, int), 'symbolic index'
            if isinstance(v, Str):
                b = v.bytes()
                if i >= len(b): raise Panic('index out of bounds')
                return b[i]
            return v[i]
        return None
    def load(self, cell, path):
        v = cell.v; variant = None
        for p in path:
            if isinstance(p, tuple) and p[0] == 'as': variant = p[1]; continue
            if isinstance(p, tuple) and p[0] == 'idx':
                i = p[1]
                v = v.bytes()[i] if isinstance(v, Str) else (v.items[i].v if isinstance(v, VecV) else v[i]); continue
            if isinstance(v, Coroutine):
                if variant and variant.startswith('variant#'): v = v.vf[(int(variant[8:]), p)]
                else: v = v.up[p]
            elif isinstance(v, (Adt, Closure)): v = v.fields[p]
            else: v = v[p]
            variant = None
        return v
    def store(self, cell, path, val):
        if not path: cell.v = val; return
        v = cell.v; variant = None
        for p in path[:-1]:
            if isinstance(p, tuple) and p[0] == 'as': variant = p[1]; continue
            if isinstance(v, Coroutine):
                v = v.vf[(int(variant[8:]), p)] if variant and variant.startswith('variant#') else v.up[p]
            elif isinstance(v, (Adt, Closure)): v = v.fields[p]
            else: v = v[p]
            variant = None
        p = path[-1]
        if isinstance(v, Coroutine):
            if variant and variant.startswith('variant#'): v.vf[(int(variant[8:]), p)] = val
            else: v.up[p] = val
        elif isinstance(v, (Adt, Closure)):
            while len(v.fields) <= p: v.fields.append(None)
            v.fields[p] = val
        else: v[p] = val

    # operands ---------------------------------------------------------
    def operand(self, s, locs):
        s = s.strip()
        if s.startswith('const '): return self.const(s[6:])
        mv = False
        while True:
            for pre in ('copy ', 'move ', 'no_retag '):
                if s.startswith(pre): s = s[len(pre):]; break
            else: break
        c, p = self.place(s, locs)
        return cp(self.load(c, p))
    def const(self, s):
        if s == 'true': return True
        if s == 'false': return False
        if s == '()': return Tup()
        m = re.fullmatch(r'(-?\d+)_(u|i)(\d+|size)', s)
        if m: return int(m.group(1))
        m = re.fullmatch(r"'(.*)'", s)
        if m: return ord(eval("'" + m.group(1) + "'"))
        m = re.fullmatch(r'b?"(.*)"', s, re.S)
        if m: return Str(list(eval('b"' + m.group(1) + '"')))
        return Opaque('const ' + s)

    # statements -------------------------------------------------------
    def exec_stmt(self, ln, locs, fn):
        if ln.startswith(('StorageLive', 'StorageDead', 'nop', 'FakeRead', 'PlaceMention', 'Retag', 'ConstEvalCounter', 'Coverage')): return
        m = re.fullmatch(r'discriminant\((.*)\) = (\d+);', ln)
        if m:
            c, p = self.place(m.group(1), locs); v = self.load(c, p)
            if isinstance(v, Coroutine): v.state = int(m.group(2))
            else: v.variant = int(m.group(2))
            return
        k = ln.index(' = ')
        lhs, rhs = ln[:k], ln[k + 3:-1]
        val = self.rvalue(rhs, locs, fn)
        c, p = self.place(lhs, locs); self.store(c, p, val)

    def rvalue(self, r, locs, fn):
        m = re.fullmatch(r'(\w+)\((.*)\)', r)
        if m and m.group(1) in BINOPS:
            return self.binop(m.group(1), [self.operand(a, locs) for a in split_top(m.group(2))])
        if r.startswith('discriminant('):
            c, p = self.place(r[13:-1], locs); v = self.load(c, p)
            return v.state if isinstance(v, Coroutine) else v.variant
        if r.startswith('PtrMetadata('): return len(self.operand(r[12:-1], locs))
        if r.startswith('&raw '): r = '&' + r.split(' ', 2)[2]
        if r.startswith('&mut '): c, p = self.place(r[5:], locs); return Ref(c, p)
        if r.startswith('&'): c, p = self.place(r[1:], locs); return Ref(c, p)
        if r.startswith('['):                       # array aggregate
            return Tup(self.operand(a, locs) for a in split_top(r[1:-1]))
        m = re.match(r'(.*) as (.*) \((\w+)(\(.*\))?\)$', r)
        if m and r.startswith(('copy ', 'move ', 'const ')):
            return self.operand(m.group(1), locs)     # casts are identity in the probe (unsize/ptr)
        if r.startswith('{coroutine@'):
            k = skip_balanced(r, 1, '}'); body = r[k + 2:].strip()
            fields = [self.operand(f.split(': ', 1)[1], locs) for f in split_top(body[1:-1].strip())] if body else []
            return Coroutine(fn.name + '::{closure#0}', fields)
        if r.startswith('{closure@'):
            k = skip_balanced(r, 1, '}'); body = r[k + 1:].strip()
            fields = [self.operand(f.split(': ', 1)[1], locs) for f in split_top(body[1:-1].strip())] if body else []
            return Closure(r[:k + 1], fields)
        if r.startswith('(') and not r.startswith('(*') and not re.match(r'\(+_\d+[\. ]', r):
            return Tup(self.operand(a, locs) for a in split_top(r[1:-1]))
        if r == '()': return Tup()
        if r.startswith(('copy ', 'move ', 'const ', 'no_retag ')): return self.operand(r, locs)
        # ADT aggregates:  Path::<..>::Variant(args) | Path { f: v } | Path::Variant
        d = 0; k = len(r)
        for i, ch in enumerate(r):
            if ch == '<': d += 1
            elif ch == '>' and r[i - 1] != '-': d -= 1
            elif d == 0 and (ch == '(' or r.startswith(' {', i)): k = i; break
        path, rest = r[:k], r[k:].strip()
        p2 = strip_generics(path)
        if rest.startswith('{'):
            inner = rest[1:-1].strip()
            fields = [self.operand(f.split(': ', 1)[1], locs) for f in split_top(inner)] if inner else []
        elif rest.startswith('('): fields = [self.operand(a, locs) for a in split_top(rest[1:-1])]
        else: fields = []
        last = p2.split('::')[-1]; ty = '::'.join(p2.split('::')[:-1])
        if last in VARIANTS: return Adt(ty.split('::')[-1], VARIANTS[last], fields)
        tyl = ty.split('::')[-1]
        if tyl in self.enums and last in self.enums[tyl]: return Adt(tyl, self.enums[tyl].index(last), fields)
        return Adt(p2.split('::')[-1], 0, fields)     # struct

    def binop(self, op, a):
        x = a[0]; y = a[1] if len(a) > 1 else None
        if not (is_sym(x) or is_sym(y)):
            M = 2 ** 64
            return {'Eq': lambda: x == y, 'Ne': lambda: x != y, 'Lt': lambda: x < y, 'Le': lambda: x <= y, 'Gt': lambda: x > y,
                    'Ge': lambda: x >= y, 'Not': lambda: (not x), 'Add': lambda: (x + y) % M, 'Sub': lambda: (x - y) % M,
                    'AddWithOverflow': lambda: Tup([(x + y) % M, x + y >= M]), 'SubWithOverflow': lambda: Tup([(x - y) % M, x < y]),
                    'BitAnd': lambda: x & y, 'BitOr': lambda: x | y}[op]()
        if z3.is_bool(x if is_sym(x) else y):
            X = x if is_sym(x) else z3.BoolVal(x); Y = (y if is_sym(y) else z3.BoolVal(y)) if y is not None else None
            return {'Not': lambda: z3.Not(X), 'Eq': lambda: X == Y, 'Ne': lambda: X != Y, 'BitAnd': lambda: z3.And(X, Y), 'BitOr': lambda: z3.Or(X, Y)}[op]()
        w = (x if is_sym(x) else y).size()
        X = x if is_sym(x) else z3.BitVecVal(x, w); Y = y if is_sym(y) else z3.BitVecVal(y, w)
        return {'Eq': lambda: X == Y, 'Ne': lambda: X != Y, 'Lt': lambda: z3.ULT(X, Y), 'Le': lambda: z3.ULE(X, Y), 'Gt': lambda: z3.UGT(X, Y),
                'Ge': lambda: z3.UGE(X, Y), 'Add': lambda: X + Y, 'Sub': lambda: X - Y,
                'AddWithOverflow': lambda: Tup([X + Y, z3.Not(z3.BVAddNoOverflow(X, Y, False))]),
                'SubWithOverflow': lambda: Tup([X - Y, z3.ULT(X, Y)])}[op]()

    # terminators ------------------------------------------------------
    def run_fn(self, name, args):
        fn = self.fns[name]; fn.parse()
        locs = {i + 1: Cell(a) for i, a in enumerate(args)}
        bb = 0; self.depth += 1
        while True:
            lines = fn.blocks[bb]
            for ln in lines[:-1]:
                self.stats['steps'] += 1; self.exec_stmt(ln, locs, fn)
            t = lines[-1]; self.stats['steps'] += 1
            if t == 'return;':
                self.depth -= 1; return locs[0].v if 0 in locs else Tup()
            m = re.fullmatch(r'goto -> bb(\d+);', t)
            if m: bb = int(m.group(1)); continue
            m = re.fullmatch(r'switchInt\((.*)\) -> \[(.*)\];', t)
            if m:
                v = self.operand(m.group(1), locs); nxt = None
                for tg in m.group(2).split(', '):
                    k, b = tg.split(': '); b = int(b[2:])
                    if k == 'otherwise': nxt = b; break
                    k = int(k)
                    if isinstance(v, bool): cond = (v == bool(k))
                    elif is_sym(v) and z3.is_bool(v): cond = v if k else z3.Not(v)
                    else: cond = (v == k)
                    if self.branch(cond): nxt = b; break
                bb = nxt; continue
            m = re.fullmatch(r'assert\((!?)(.*?), "(.*?)".*\) -> \[success: bb(\d+), unwind.*\];', t)
            if m:
                v = self.operand(m.group(2), locs)
                if m.group(1): v = (not v) if isinstance(v, bool) else z3.Not(v)
                if self.branch(v): bb = int(m.group(4)); continue
                raise Panic(m.group(3))
            m = re.fullmatch(r'drop\((.*)\) -> \[return: bb(\d+), .*\];', t)
            if m: bb = int(m.group(2)); continue
            if t.startswith('unreachable'): raise Unsupported('unreachable in ' + name)
            m = re.fullmatch(r'(.*?) = (.*)\((.*)\) -> \[return: bb(\d+), unwind.*\];', t)
            if m:
                argv = [self.operand(a, locs) for a in split_top(m.group(3))]
                resv = self.call(m.group(2), argv)
                c, p = self.place(m.group(1), locs); self.store(c, p, resv)
                bb = int(m.group(4)); continue
            raise Unsupported('term ' + t)

    def call(self, callee, a):
        target = self.res.resolve(callee)
        if target and target in self.fns and not callee.startswith('std::') and not callee.startswith('core::'):
            return self.run_fn(target, a)
        for pat, f in MODELS:
            if re.fullmatch(pat, callee): return f(self, callee, *a)
        raise Unsupported('call ' + callee)

BINOPS = {'Eq', 'Ne', 'Lt', 'Le', 'Gt', 'Ge', 'Add', 'Sub', 'AddWithOverflow', 'SubWithOverflow', 'BitAnd', 'BitOr', 'Not'}

# ------------------------------------------------------------------ std / tokio models
def rd(M, r): return M.load(r.cell, r.path) if isinstance(r, Ref) else r
def as_str(M, v):
    v = rd(M, v)
    if isinstance(v, Ref): v = rd(M, v)
    if isinstance(v, StringV): return Str(v.data)
    return v
def key_of(M, v):
    s = as_str(M, v).py()
    if s is None: raise Unsupported('symbolic key')
    return s

def m_poll(M, callee, pin, cx):
    fut = rd(M, pin.fields[0])
    if isinstance(fut, Coroutine): return M.run_fn(fut.body, [pin, cx])
    if isinstance(fut, Opaque) and fut.n.startswith('lockfut'):
        return Adt('Poll', 0, [Adt('Guard', 0, [fut.ref])])
    raise Unsupported('poll of ' + repr(fut))

def m_hm_get(M, callee, mp, k):
    h = rd(M, mp); s = h.find(key_of(M, k))
    if s is None: return NONE()
    return some(Ref(s[2])) if M.branch(s[1]) else NONE()
def m_hm_contains(M, callee, mp, k):
    h = rd(M, mp); s = h.find(key_of(M, k))
    return False if s is None else s[1]
def m_hm_remove(M, callee, mp, k):
    h = rd(M, mp); s = h.find(key_of(M, k))
    if s is None or not M.branch(s[1]): return NONE() if 'HashMap' in callee else False
    s[1] = False
    return some(s[2].v) if 'HashMap' in callee else True
def m_hm_insert(M, callee, mp, k, *v):
    h = rd(M, mp); key = key_of(M, k); s = h.find(key)
    val = v[0] if v else Tup()
    if s is None: h.slots.append([key, True, Cell(val)]); return NONE() if v else True
    was = s[1]; s[1] = True; s[2] = Cell(val)
    return Opaque('old') if v else (z3.Not(was) if is_sym(was) else (not was))
def m_hm_is_empty(M, callee, mp):
    h = rd(M, mp)
    lives = [s[1] for s in h.slots]
    if all(isinstance(x, bool) for x in lives): return not any(lives)
    return z3.Not(z3.Or([x if is_sym(x) else z3.BoolVal(x) for x in lives]))
def m_hm_keys(M, callee, mp):
    h = rd(M, mp)
    def gen():
        for s in list(h.slots):
            if M.branch(s[1]):
                yield Ref(Cell(StringV(list(s[0].encode())))) if 'keys' in callee or 'HashSet' in callee else Tup([Ref(Cell(StringV(list(s[0].encode())))), Ref(s[2])])
    return Iter(gen())
def m_iter_next(M, callee, it):
    it = rd(M, it)
    try: return some(next(it.gen))
    except StopIteration: return NONE()
def m_vec_iter(M, callee, v):
    vec = rd(M, v)
    def gen():
        for c in list(vec.items): yield Ref(c)
    return Iter(gen())

def decode_template(t):
    out = []; i = 0; nxt = 0
    while True:
        b = t[i]
        if b == 0: break
        if b & 0xC0 == 0xC0:
            i += 1; idx = None
            if b & 1: i += 4
            if b & 2: i += 2
            if b & 4: i += 2
            if b & 8: idx = t[i] | (t[i + 1] << 8); i += 2
            if idx is None: idx = nxt
            nxt = idx + 1; out.append(('arg', idx))
        elif b == 0x80:
            n = t[i + 1] | (t[i + 2] << 8); out.append(('lit', t[i + 3:i + 3 + n])); i += 3 + n
        else:
            out.append(('lit', t[i + 1:i + 1 + b])); i += 1 + b
    return out

def display(M, v, out):
    v = rd(M, v)
    while isinstance(v, Ref): v = rd(M, v)
    if isinstance(v, Str): out.extend(v.bytes())
    elif isinstance(v, StringV): out.extend(v.data)
    elif isinstance(v, int): out.extend(str(v).encode())
    elif isinstance(v, Adt) and v.name == 'Arguments': fmt_args(M, v, out)
    elif isinstance(v, Adt):
        target = M.res.resolve(f'<{v.name} as Display>::fmt')
        if not target: raise Unsupported('display of ' + repr(v))
        fcell = Cell(Adt('Formatter', 0, [out]))
        M.run_fn(target, [Ref(Cell(v)), Ref(fcell)])
    else: raise Unsupported('display of ' + repr(v))
def fmt_args(M, args, out):
    tmpl, arr = args.fields
    arr = rd(M, arr)
    for kind, x in decode_template(tmpl.bytes()):
        if kind == 'lit': out.extend(x)
        else: display(M, arr[x].fields[0], out)
def m_format(M, callee, args):
    out = []; fmt_args(M, args, out); return StringV(out)
def m_write_fmt(M, callee, f, args):
    fm = rd(M, f); fmt_args(M, args, fm.fields[0]); return Adt('Result', 0, [Tup()])
def m_write_str(M, callee, f, s):
    fm = rd(M, f); fm.fields[0].extend(as_str(M, s).bytes()); return Adt('Result', 0, [Tup()])

def m_unwrap(M, callee, o):
    if M.branch(o.variant == 1) if not isinstance(o.variant, int) else o.variant == 1: return o.fields[0]
    raise Panic('called `Option::unwrap()` on a `None` value')

def m_send(M, callee, tx, msg):
    q = rd(M, tx); q.fields[0].append(msg); return Adt('Result', 0, [Tup()])

MODELS = [
    (r'<\{async fn body of .*\} as (std::future::IntoFuture|core::future::IntoFuture)>::into_future', lambda M, c, f: f),
    (r'std::pin::Pin::<.*>::new_unchecked', lambda M, c, r: Adt('Pin', 0, [r])),
    (r'<.* as futures::Future>::poll', m_poll),
    (r'tokio::sync::RwLock::<.*>::(write|read)', lambda M, c, l: (lambda o: (setattr(o, 'ref', Ref(l.cell, l.path + (0,))), o)[1])(Opaque('lockfut'))),
    (r'<tokio::sync::RwLock(Write|Read)Guard<.*> as std::ops::Deref(Mut)?>::deref(_mut)?', lambda M, c, g: rd(M, g).fields[0]),
    (r'std::option::Option::<.*>::as_ref', lambda M, c, o: (lambda v, r: some(Ref(r.cell, r.path + (0,))) if v.variant == 1 else NONE())(rd(M, o), o)),
    (r'std::option::Option::<.*>::unwrap', m_unwrap),
    (r'std::option::Option::<.*>::unwrap_or', lambda M, c, o, d: o.fields[0] if o.variant == 1 else d),
    (r'std::option::Option::<.*>::take', lambda M, c, o: (lambda v: (M.store(o.cell, o.path, NONE()), v)[1])(rd(M, o))),
    (r'std::option::Option::<.*>::unwrap_or_default', lambda M, c, o: o.fields[0] if o.variant == 1 else HMap()),
    (r'std::collections::Hash(Map|Set)::<.*>::(get|get_mut)::<.*>', m_hm_get),
    (r'std::collections::Hash(Map|Set)::<.*>::(contains_key|contains)::<.*>', m_hm_contains),
    (r'std::collections::Hash(Map|Set)::<.*>::remove::<.*>', m_hm_remove),
    (r'std::collections::Hash(Map|Set)::<.*>::insert', m_hm_insert),
    (r'std::collections::Hash(Map|Set)::<.*>::is_empty', m_hm_is_empty),
    (r'std::collections::Hash(Map|Set)::<.*>::(keys|iter)', m_hm_keys),
    (r'<std::collections::hash_map::Keys<.*> as std::iter::IntoIterator>::into_iter', lambda M, c, i: i),
    (r'<std::collections::hash_map::Keys<.*> as std::iter::Iterator>::next', m_iter_next),
    (r'<&std::vec::Vec<.*> as std::iter::IntoIterator>::into_iter', m_vec_iter),
    (r'<std::slice::Iter<.*> as std::iter::Iterator>::next', m_iter_next),
    (r'std::vec::Vec::<.*>::new', lambda M, c: VecV()),
    (r'std::vec::Vec::<.*>::push', lambda M, c, v, x: (rd(M, v).items.append(Cell(x)), Tup())[1]),
    (r'<(&)*str as std::string::ToString>::to_string', lambda M, c, s: StringV(as_str(M, s).bytes())),
    (r'<std::string::String as std::clone::Clone>::clone', lambda M, c, s: StringV(rd(M, s).data)),
    (r'<std::string::String as std::ops::Deref>::deref', lambda M, c, s: Str(list(rd(M, s).data))),
    (r'core::fmt::rt::Argument::<.*>::new_display::<.*>', lambda M, c, r: Adt('Argument', 0, [r])),
    (r'std::fmt::Arguments::<.*>::new::<.*>', lambda M, c, t, a: Adt('Arguments', 0, [t, a])),
    (r'std::fmt::format', m_format),
    (r'std::hint::must_use::<.*>', lambda M, c, x: x),
    (r'std::fmt::Formatter::<.*>::write_fmt', m_write_fmt),
    (r'std::fmt::Formatter::<.*>::write_str', m_write_str),
    (r'<std::result::Result<.*> as std::ops::Try>::branch', lambda M, c, r: Adt('ControlFlow', 0, [r.fields[0]]) if r.variant == 0 else Adt('ControlFlow', 1, [r])),
    (r'<std::result::Result<.*> as std::ops::FromResidual<.*>>::from_residual', lambda M, c, r: Adt('Result', 1, [Opaque('boxed error')])),
    (r'<tracing::Level as std::cmp::PartialOrd<tracing::level_filters::LevelFilter>>::le', lambda M, c, a, b: False),
    (r'tokio::sync::mpsc::UnboundedSender::<.*>::send', m_send),
    (r'std::time::SystemTime::now', lambda M, c: Opaque('now')),
]

# ------------------------------------------------------------------ enum tables from source
def parse_enums(root):
    enums = {}
    for dp, _, fs in os.walk(root + 'src'):
        for f in fs:
            txt = open(os.path.join(dp, f)).read()
            for m in re.finditer(r'\benum\s+(\w+)[^{;]*\{', txt):
                i = m.end(); depth = 1; cur = ''; vs = []
                while depth > 0:
                    c = txt[i]
                    if c in '{(': depth += 1
                    elif c in '})': depth -= 1
                    if depth == 1 and c == ',' : vs.append(cur); cur = ''
                    elif depth >= 1: cur += c if depth == 1 else ''
                    i += 1
                vs.append(cur)
                names = []
                for v in vs:
                    v = re.sub(r'//.*', '', v); v = re.sub(r'#\[[^\]]*\]', '', v).strip()
                    mm = re.match(r'(\w+)', v)
                    if mm: names.append(mm.group(1))
                enums[m.group(1)] = names
    return enums

# ------------------------------------------------------------------ harness: process_kick
def S(s): return Str(list(s.encode()))
def SV(s): return StringV(list(s.encode()))

def field_index(fns, struct, nfields):
    return None

def build_world(M, sym):
    """3 users alice,bob,carol registered; channel #c exists? symbolic; membership/rank symbolic"""
    nicks = ['alice', 'bob', 'carol']
    B = lambda n: z3.Bool(n)
    users = HMap(); queues = {}
    member = {n: B(f'mem_{n}') for n in nicks}
    for n in nicks:
        q = []; queues[n] = q
        chans = HMap(); chans.slots.append(['#c', member[n], Cell(Tup())])
        # User fields: hostname, sender, quit_sender, name, realname, source, modes, away, channels, invited_to, last_activity, signon, history_entry
        u = Adt('User', 0, [SV('h'), Adt('Sender', 0, [q]), NONE(), SV(n), SV(n), SV(f'{n}!~{n}@h'),
                            Adt('UserModes', 0, [False] * 5), NONE(), chans, HMap(), 0, 0, Opaque('hist')])
        users.slots.append([n, True, Cell(u)])
    chan_exists = B('chan_exists')
    cusers = HMap(); ranks = {}
    def rankset(bit):
        h = HMap()
        for n in nicks: h.slots.append([n, z3.And(member[n], ranks[n][bit]), Cell(Tup())])
        return some(h)
    for n in nicks:
        ranks[n] = [B(f'{n}_{r}') for r in ('founder', 'protected', 'voice', 'operator', 'half')]
        cusers.slots.append([n, member[n], Cell(Adt('ChannelUserModes', 0, list(ranks[n])))])
    # ChannelModes: ban, exception, client_limit, invite_exception, key, operators, half_operators, voices, founders, protecteds, 5 bools
    modes = Adt('ChannelModes', 0, [NONE(), NONE(), NONE(), NONE(), NONE(), rankset(3), rankset(4), rankset(2), rankset(0), rankset(1),
                                    False, False, False, False, False])
    chan = Adt('Channel', 0, [NONE(), modes, Opaque('defmodes'), HMap(), cusers, 0, B('preconf')])
    channels = HMap(); channels.slots.append(['#c', chan_exists, Cell(chan)])
    vs = Adt('VolatileState', 0, [users, channels, HMap(), 0, 0, 3, HMap(), NONE(), NONE()])
    config = Adt('MainConfig', 0, [SV('irc.irc')])
    main = Adt('MainState', 0, [config, HMap(), HMap(), Opaque('conns'), Adt('RwLock', 0, [vs])])
    # ConnState: field 0 = stream(BufferedLineStream{stream, buffer}), field 11 = user_state
    ustate = Adt('ConnUserState', 0, [Opaque('ip'), SV('h'), some(SV('alice')), some(SV('alice')), some(SV('alice')), SV('alice!~alice@h'), NONE(), True, False])
    outbuf = VecV()
    conn = Adt('ConnState', 0, [Adt('BufferedLineStream', 0, [Opaque('framed'), outbuf])] + [Opaque('f%d' % i) for i in range(1, 11)] + [ustate])
    # invariant: a non-existing channel has no members in users' channel sets is NOT assumed here (slots share bits)
    return main, conn, outbuf, queues, dict(member=member, ranks=ranks, chan_exists=chan_exists)

def run_handler(fns, res, enums, handler, mk, max_paths=100000):
    decisions = []; results = []; t0 = time.time(); n = 0
    while True:
        M = Machine(fns, res, enums); M.decisions = decisions
        main, conn, outbuf, queues, symtab = build_world(M, True)
        try:
            co = M.run_fn(handler, mk(M, main, conn))
            cell = Cell(co)
            pin = Adt('Pin', 0, [Ref(cell)])
            r = M.run_fn(co.body, [pin, Ref(Cell(Opaque('cx')))])
            out = ('ok', r)
        except Panic as e:
            out = ('panic', str(e))
        results.append((out, M, outbuf, queues, symtab)); n += 1
        decisions = M.decisions
        while decisions and not decisions[-1][1]: decisions.pop()
        if not decisions or n >= max_paths: break
        decisions[-1] = [not decisions[-1][0], False]
    return results, time.time() - t0

if __name__ == '__main__':
    fns = load(sys.argv[1]); res = Resolver(fns); enums = parse_enums(SRC_ROOT)
    print('fns', len(fns), 'enums', len(enums))
    H = 'state::channel_cmds::<impl at src/state/channel_cmds.rs:26:1: 26:22>::process_kick'
    def mk(M, main, conn):
        victims = VecV([S('bob'), S('bob')]) if len(sys.argv) > 2 else VecV([S('bob')])
        return [Ref(Cell(main)), Ref(Cell(conn)), S('#c'), victims, NONE()]
    results, dt = run_handler(fns, res, enums, H, mk)
    print('paths', len(results), f'{dt:.1f}s')
    shown = set()
    for out, M, outbuf, queues, st in results:
        key = out[1] if out[0] == 'panic' else 'ok'
        if out[0] == 'panic' and key not in shown:
            shown.add(key); assert M.solver.check() == z3.sat
            md = M.solver.model()
            print('PANIC:', key, '| model:', {str(d): md[d] for d in md.decls() if not str(d).startswith('k!')})
    ok = [r for r in results if r[0][0] == 'ok']
    print('ok paths', len(ok), 'panic paths', len(results) - len(ok))
    out, M, outbuf, queues, st = ok[0]
    print('sample reply buffer:', [bytes(x if isinstance(x, int) else 63 for x in c.v.data) for c in outbuf.items])
    for out, M, outbuf, queues, st in ok:
        if queues['bob']:
            print('sample relayed to bob:', [bytes(m.data) for m in queues['bob']]); break
