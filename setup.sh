#!/bin/bash
# Offline setup: builds third-party dependency artifacts for the MIR dump and the native replay builds into /verif/.cache
cd "$(dirname "$0")"
export PYTHONPATH="$(pwd)" CARGO_NET_OFFLINE=true
exec python3-vt -m mirsym.build
