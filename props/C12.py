"""C12  Secret channels and invisible users stay hidden from outsiders.

Product construction: the query is executed in a world W containing the hidden part and again, on the same path, in
the world W' that differs only by the hidden part being absent; the two reply buffers must be identical."""
import sys
import z3
from mirsym.steplib import judge, call, buf_text
from mirsym.post import And, Or, Not, Iff, Implies
from mirsym.values import *
from mirsym.world import World, Spec
from mirsym.models.fmt_m import DecSeg
from props.oracles import *
from props.common import run_property

PROP = 'C12'

@call('product')
def c_product(ctx):
    M, prog, case = ctx.M, ctx.prog, ctx.case
    w1 = ctx.w
    # extra assumptions on W (e.g. the observer shares no channel with the invisible user)
    for a, b in case.get('disjoint', []):
        for c in w1.spec.chans:
            M.assume(z3.Not(z3.And(w1._b(w1.member[(a, c)]), w1._b(w1.member[(b, c)]))))
    M.env['wall_log'] = []
    r1 = w1.process_line(ctx.conn, ctx.line)
    out1 = w1.written(ctx.conn)
    # the second run reads the same clock values
    M.env['wall_replay'] = list(M.env['wall_log']); M.env['wall_replay_pos'] = 0
    part = dict(case.get('partial') or {})
    part.update(case['hide'])
    w2 = World(M, prog, Spec(**case.get('spec', {})), partial=part)
    conn2 = w2.add_conn(ctx.actor)
    r2 = w2.process_line(conn2, ctx.line)
    out2 = w2.written(conn2)
    ctx.product = (out1, out2, w2)
    ctx.q2 = {n: [list(s.data) for s in ch.q] for n, ch in w2.queues.items()}
    return r1

def same_line(M, a, b):
    if len(a) != len(b): return False
    conds = []
    for x, y in zip(a, b):
        if isinstance(x, int) and isinstance(y, int):
            if x != y: return False
        elif isinstance(x, DecSeg) and isinstance(y, DecSeg):
            conds.append(x.term == y.term)
        elif isinstance(x, DecSeg) or isinstance(y, DecSeg):
            return False
        else:
            conds.append(x == y)
    return M.and_all(conds)

@judge('indistinguishable')
def j_indist(ctx):
    if ctx.outcome != 'ok': return []
    out1, out2, w2 = ctx.product
    obs = []
    what = ctx.case.get('what', 'the hidden part')
    if len(out1) != len(out2):
        extra = [buf_text(l) for l in out1 if not any(same_line(ctx.M, l, m) is True for m in out2)][:2]
        obs.append(('hidden:reply-count', f'{ctx.line}: the outsider gets {len(out1)} lines with {what} present and {len(out2)} without; e.g. {extra}', False))
        return obs
    for i, (a, b) in enumerate(zip(out1, out2)):
        obs.append(('hidden:reply', f'{ctx.line}: reply line {i} differs with {what} present: {buf_text(a)!r} vs {buf_text(b)!r}', same_line(ctx.M, a, b)))
    return obs

def make_cases(tier, profile):
    cases = []
    base = dict(sym_caps=True, sym_max_joins=False, sym_key=False, sym_limit=False, sym_lists=False, sym_invites=False, sym_away=False,
                nicks=['alice', 'bob', 'carol'], plain_chans=[])
    # a secret channel the observer is not on
    hide_x = {'exists_#x': False, 'mem_alice_#x': False, 'mem_bob_#x': False, 'mem_carol_#x': False, 'hastopic_#x': False}
    p_secret = {'exists_#x': True, 'secret_#x': True, 'mem_alice_#x': False}
    qs = ['LIST', 'LIST #x', 'LIST #x,&y', 'NAMES', 'NAMES #x', 'NAMES #x,&y', 'WHO #x', 'WHO *', 'WHO bob', 'WHO b*', 'WHOIS bob', 'WHOIS bob,carol', 'WHOIS b*']
    if tier != 'quick': qs += ['WHO *o*', 'WHOIS *', 'NAMES &y,#x', 'LIST &y', 'WHO carol', 'WHO ?ob']
    from mirsym.world import RANKS
    if tier == 'quick':
        quick_fix = {f'{r}_{n}_#x': False for n in ('alice', 'carol') for r in RANKS}
        quick_fix.update({f'{r}_{n}_&y': False for n in ('alice', 'bob', 'carol') for r in RANKS})
    else:
        # thorough: all five ranks of bob on #x, operator/voice of carol on #x and of bob on &y, operator of alice are symbolic; the remaining rank flags are off
        keep = {('bob', '#x', r) for r in RANKS} | {('carol', '#x', 'operator'), ('carol', '#x', 'voice'), ('bob', '&y', 'operator'), ('bob', '&y', 'voice'), ('alice', '#x', 'operator'), ('alice', '&y', 'operator')}
        quick_fix = {f'{r}_{n}_{c}': False for n in ('alice', 'bob', 'carol') for c in ('#x', '&y') for r in RANKS if (n, c, r) not in keep}
    for q in qs:
        cases.append(dict(name=q + ' [secret #x]', line=q, call='product', judges=['no_panic', 'indistinguishable'], hide=hide_x, what='the secret channel #x',
                          spec=dict(base, sym_modes=False), partial0=dict(p_secret, **quick_fix), split=['mem_bob_#x', 'mem_carol_#x', 'exists_&y'] + ([] if tier == 'quick' else ['mem_bob_&y', 'founder_bob_#x'])))
    # ... whose members may be server operators, away or invisible (user modes of the listed users symbolic, operators configured)
    umfix = {f'umode_{m}_alice': False for m in ('oper', 'local_oper', 'wallops', 'invisible', 'registered')}
    umfix.update({f'umode_{m}_{n}': False for n in ('bob', 'carol') for m in ('wallops', 'registered', 'local_oper')})
    for q in (['WHOIS bob', 'WHOIS b*', 'WHO bob', 'WHO *'] if tier == 'quick' else ['WHOIS bob', 'WHOIS b*', 'WHOIS bob,carol', 'WHO bob', 'WHO *', 'WHO b*', 'NAMES', 'LIST']):
        cases.append(dict(name=q + ' [secret #x, operators among its members]', line=q, call='product', judges=['no_panic', 'indistinguishable'], hide=hide_x, what='the secret channel #x',
                          spec=dict(base, sym_modes=True, sym_away=True, operators=[('opname', 'goodpw', None)]), partial0=dict(p_secret, **quick_fix, **umfix),
                          split=['mem_bob_#x', 'mem_carol_#x', 'exists_&y', 'umode_oper_bob']))
    # an invisible user sharing no channel with the observer
    hide_bob = {'reg_bob': False, 'mem_bob_#x': False, 'mem_bob_&y': False}
    p_inv = {'umode_invisible_bob': True, 'reg_bob': True}
    qi = ['NAMES', 'NAMES #x', 'NAMES #x,&y', 'WHO #x', 'WHO *', 'WHO bob', 'WHO b*', 'WHOIS bob', 'WHOIS b*', 'WHOIS bob,carol']
    fix_modes = {f'umode_{m}_{n}': False for n in ('alice', 'bob', 'carol') for m in ('oper', 'wallops')}
    for q in qi:
        cases.append(dict(name=q + ' [invisible bob]', line=q, call='product', judges=['no_panic', 'indistinguishable'], hide=hide_bob, what='the invisible user bob',
                          disjoint=[('alice', 'bob')], spec=dict(base, sym_modes=True, sym_users=True, sym_flags=True),
                          partial0=dict(p_inv, **fix_modes, **quick_fix, **{'preconf_#x': True, 'preconf_&y': True}), split=['mem_bob_#x', 'mem_alice_#x', 'mem_carol_#x'] + ([] if tier == 'quick' else ['mem_bob_&y', 'founder_bob_#x'])))
    return cases

BOUNDS = dict(universe='3 users, 2 channels (quick: ranks of bob on #x only; thorough: all ranks of bob on #x, operator/voice of carol on #x and bob on &y, operator of alice); hidden part = the secret channel #x (its existence, members, ranks, topic, other flags symbolic) resp. the +i user bob (its memberships, ranks symbolic) sharing no channel with the observer',
              queries='LIST, NAMES, WHO, WHOIS: no argument, explicit names incl. the hidden one, comma lists, wildcard masks',
              outside='PRIVMSG/JOIN/TOPIC/MODE answers (the statement restricts indistinguishability to the four queries; C10 proves "cannot speak into it"); LIST member counts for invisible users; worlds in which removing the invisible user would empty a non-preconfigured channel (channels are preconfigured in those cases)')

if __name__ == '__main__':
    run_property(PROP, sys.argv[1], int(sys.argv[2]), make_cases, BOUNDS,
                 ['two-run product on one path: same solver variables for the visible part of both worlds'])
