"""C13  Lines are framed and parsed by the IRC grammar, and relays re-parse identically."""
import sys, time
import z3
from mirsym.steplib import judge
from mirsym.post import And, Or, Not, Iff, Implies
from mirsym.values import *
from mirsym.explore import explore, Stats, model_of, check_valid
from mirsym.checklib import span_text, model_bytes, Finding
from mirsym.models.str_m import utf8_valid_constraint
from props.oracles import *
from props.common import run_property, pure

PROP = 'C13'
WS = (32,)

# ------------------------------------------------------------------------------------------ reference tokenizer on symbolic bytes
def sym_ref_parse(M, bs):
    """RFC 1459 grammar on a byte list with symbolic bytes, deciding by branching on this path.
    -> ('empty',) | ('nocommand',) | ('ok', source_range|None, cmd_range, [param ranges])   (ranges are (start, end) offsets)"""
    n = len(bs)
    def is_(i, c):
        b = bs[i]
        return M.branch((b == c) if is_sym(b) else (b == c))
    def is_sp(i):
        return is_(i, 32)
    i = 0
    while i < n and is_sp(i): i += 1
    if i == n: return ('empty',)
    src = None
    if is_(i, 58):
        j = i
        while j < n and not is_sp(j): j += 1
        src = (i + 1, j); i = j
        while i < n and is_sp(i): i += 1
        if i == n: return ('nocommand', src)
    if is_(i, 58):
        return ('nocommand', src)        # a trailing parameter where the command should be
    j = i
    while j < n and not is_sp(j): j += 1
    cmd = (i, j); i = j
    params = []
    while True:
        while i < n and is_sp(i): i += 1
        if i >= n: break
        if is_(i, 58):
            params.append((i + 1, n)); break
        j = i
        while j < n and not is_sp(j): j += 1
        params.append((i, j)); i = j
    return ('ok', src, cmd, params)

def view_range(v, base):
    """(start, end) of a Str view relative to the input buffer `base`"""
    if v.buf is not base.buf: return None
    return (v.s - base.s, v.e - base.s)

@pure('grammar')
def p_grammar(prog, case, budget):
    """Message::from_shared_str == reference tokenizer, for every line of n bytes from the printable repertoire"""
    st = Stats(); findings = []; samples = []; nontriv = [0]
    n, alpha = case['n'], case['alpha']
    bs = [z3.BitVec(f'b{i}', 8) for i in range(n)]
    fsh = prog.resolve_crate_fn('command::Message::from_shared_str')
    names = prog.structs['Message']
    def run(M):
        M.assume(utf8_valid_constraint(bs))
        for b in bs:
            # printable repertoire: no control characters (CR/LF never reach the parser; other ASCII control whitespace is outside the claim)
            M.assume(z3.UGE(b, 32)); M.assume(b != 127)
            if alpha == 'ascii': M.assume(z3.ULT(b, 128))
        if alpha == 'utf8' and bs:
            M.assume(z3.Or([z3.UGE(b, 128) for b in bs]))
            for i, b in enumerate(bs):
                # Unicode white space (U+0085, U+00A0, U+1680, U+2000.., U+3000) is outside the claim: the grammar knows the ASCII blank only
                M.assume(z3.And(b != 0xE1, b != 0xE2, b != 0xE3))
                if i + 1 < len(bs): M.assume(z3.Not(z3.And(b == 0xC2, z3.Or(bs[i + 1] == 0x85, bs[i + 1] == 0xA0))))
        line = Str(bs)
        r = M.run_fn(fsh, [line])
        ref = sym_ref_parse(M, bs)
        return line, r, ref
    def on(r):
        M = r.M
        if r.kind == 'panic':
            md = model_of(M)
            if md is None: return
            findings.append(dict(kind='panic', site='from_shared_str: ' + span_text(prog, r.value.site), what=r.value.msg, predicate='parser-panic',
                                 witness=dict(line=model_bytes(md, bs).hex(), profile=prog.profile)))
            return
        if r.kind != 'ok': return
        nontriv[0] += 1
        line, res, ref = r.value
        bad = None
        if res.variant == 1:
            e = res.fields[0]
            en = prog.enums['MessageError'][e.variant]
            if ref[0] == 'empty': okk = en == 'Empty'
            elif ref[0] == 'nocommand': okk = en in ('NoCommand', 'WrongSource')
            else:
                # only a malformed source may be refused
                okk = en == 'WrongSource' and ref[1] is not None
            if not okk: bad = f'refused with {en} although the grammar gives {ref[0]}'
        else:
            if ref[0] != 'ok': bad = f'accepted although the grammar gives {ref[0]}'
            else:
                m = res.fields[0]
                g = lambda f: m.fields[names.index(f)]
                src = g('source'); cmd = g('command'); params = g('params')
                got_src = view_range(src.fields[0], line) if src.variant == 1 else None
                got_cmd = view_range(cmd, line)
                got_params = [view_range(c.v, line) for c in params.items]
                if (got_src, got_cmd, got_params) != (ref[1], ref[2], ref[3]):
                    bad = f'parsed as source={got_src} command={got_cmd} params={got_params}, grammar says source={ref[1]} command={ref[2]} params={ref[3]}'
        st.obligations += 1
        if bad is None:
            st.discharged += 1
            if len(samples) < 1:
                md = model_of(M)
                if md is not None: samples.append(dict(function='from_shared_str', line=model_bytes(md, bs).decode('utf-8', 'replace'), reference=str(ref)[:200]))
        else:
            md = model_of(M)
            if md is None: return
            lb = model_bytes(md, bs)
            findings.append(dict(kind='mismatch', site='from_shared_str vs IRC grammar', what=bad, predicate=('colon-in-middle' if b':' in lb.strip()[1:] else 'tokenizing') + ('+prefix' if lb.strip()[:1] == b':' else '') + ('/refused' if res.variant == 1 else ('/accepted' if ref[0] != 'ok' else '/parsed')),
                                 witness=dict(line=lb.hex(), profile=prog.profile)))
    explore(prog, run, on, stats=st, prefix=case.get('prefix'), timeout_ms=budget['solver_ms'], max_steps=budget['steps'], max_paths=budget['paths'],
            deadline=(time.time() + budget['case_s']) if budget.get('case_s') else None)
    return dict(stats=st, findings=findings, samples=samples, nontrivial=nontriv[0], case=case['name'])

@pure('verbclass')
def p_verbclass(prog, case, budget):
    """a line that is one word of n symbolic bytes (optionally followed by concrete parameters): if the word contains a non-ASCII byte it is not
    one of the protocol's verbs, so Command::from_message must answer UnknownCommand - never execute it as some command"""
    st = Stats(); findings = []; samples = []; nontriv = [0]
    n = case['n']; tail = case.get('tail', '')
    bs = [z3.BitVec(f'v{i}', 8) for i in range(n)]
    fsh = prog.resolve_crate_fn('command::Message::from_shared_str'); fmsg = prog.resolve_crate_fn('command::Command::from_message')
    def run(M):
        M.assume(utf8_valid_constraint(bs))
        for b in bs: M.assume(z3.And(b != 10, b != 13, b != 32, b != 9, z3.UGT(b, 32)))
        M.assume(bs[0] != 58)
        M.assume(z3.Or([z3.UGE(b, 128) for b in bs]))
        # Unicode white space inside the word is outside the claim (the parser trims and splits on it; see DESIGN.md 12.3)
        for i in range(n):
            if i + 1 < n: M.assume(z3.Not(z3.And(bs[i] == 0xC2, z3.Or(bs[i + 1] == 0x85, bs[i + 1] == 0xA0))))
            if i + 2 < n:
                M.assume(z3.Not(z3.And(bs[i] == 0xE1, bs[i + 1] == 0x9A, bs[i + 2] == 0x80)))
                M.assume(z3.Not(z3.And(bs[i] == 0xE2, bs[i + 1] == 0x80, z3.Or(z3.And(z3.UGE(bs[i + 2], 0x80), z3.ULE(bs[i + 2], 0x8A)), bs[i + 2] == 0xA8, bs[i + 2] == 0xA9, bs[i + 2] == 0xAF))))
                M.assume(z3.Not(z3.And(bs[i] == 0xE2, bs[i + 1] == 0x81, bs[i + 2] == 0x9F)))
                M.assume(z3.Not(z3.And(bs[i] == 0xE3, bs[i + 1] == 0x80, bs[i + 2] == 0x80)))
        line = Str(bs + list(tail.encode()))
        r = M.run_fn(fsh, [line])
        if r.variant != 0: return ('noparse', r)
        return ('parsed', M.run_fn(fmsg, [Ref(Cell(r.fields[0]))]))
    def on(r):
        if r.kind == 'panic':
            md = model_of(r.M)
            if md is not None:
                findings.append(dict(kind='panic', site='parser: ' + span_text(prog, r.value.site), what=r.value.msg, predicate='parser-panic', witness=dict(line=(model_bytes(md, bs) + tail.encode()).hex(), profile=prog.profile)))
            return
        if r.kind != 'ok': return
        nontriv[0] += 1; st.obligations += 1
        kind, res = r.value
        bad = None
        if kind == 'parsed':
            if res.variant == 0: bad = 'executed as a command'
            else:
                e = res.fields[0]
                en = prog.enums['CommandError'][e.variant] if 'CommandError' in prog.enums and isinstance(e.variant, int) else str(e.variant)
                if en != 'UnknownCommand': bad = f'classified as {en} of some known command'
        if bad is None:
            st.discharged += 1
            if len(samples) < 1:
                md = model_of(r.M)
                if md is not None: samples.append(dict(function='from_shared_str+from_message', line=(model_bytes(md, bs) + tail.encode()).decode('utf-8', 'replace'), outcome='unknown command'))
            return
        md = model_of(r.M)
        if md is None: return
        lb = model_bytes(md, bs) + tail.encode()
        findings.append(dict(kind='mismatch', site='verb classification', what=f'a word with a non-ASCII character is {bad}', predicate='non-ascii-verb',
                             witness=dict(line=lb.hex(), profile=prog.profile, classify=True)))
    explore(prog, run, on, stats=st, prefix=case.get('prefix'), timeout_ms=budget['solver_ms'], max_steps=budget['steps'], max_paths=budget['paths'],
            deadline=(time.time() + budget['case_s']) if budget.get('case_s') else None)
    return dict(stats=st, findings=findings, samples=samples, nontrivial=nontriv[0], case=case['name'])

@pure('roundtrip')
def p_roundtrip(prog, case, budget):
    """a message with a symbolic last parameter, serialised as relays do, re-parses (reference grammar) to the same verb and parameters"""
    st = Stats(); findings = []; samples = []; nontriv = [0]
    n, nparams = case['n'], case['nparams']
    bs = [z3.BitVec(f't{i}', 8) for i in range(n)]
    to_str = prog.resolve_crate_fn('command::Message::to_string_with_source')
    names = prog.structs['Message']
    verb = case['verb']
    def run(M):
        M.assume(utf8_valid_constraint(bs))
        for b in bs:
            M.assume(z3.UGE(b, 32)); M.assume(b != 127); M.assume(z3.ULT(b, 128))
        params = [mkstr('#chan')] * (nparams - 1) + [Str(bs)]
        fields = {'source': NONE(), 'command': mkstr(verb), 'params': VecV(params)}
        msg = Adt('Message', 0, [fields[f] for f in names])
        out = M.run_fn(to_str, [Ref(Cell(msg)), mkstr('nick!user@host')])
        ref = sym_ref_parse(M, out.data)
        return out, ref
    def on(r):
        M = r.M
        if r.kind == 'panic':
            md = model_of(M)
            if md is not None:
                findings.append(dict(kind='panic', site='to_string_with_source: ' + span_text(prog, r.value.site), what=r.value.msg, predicate='relay-panic',
                                     witness=dict(text=model_bytes(md, bs).hex(), verb=verb, profile=prog.profile)))
            return
        if r.kind != 'ok': return
        nontriv[0] += 1
        out, ref = r.value
        st.obligations += 1
        okk = ref[0] == 'ok' and len(ref[3]) == nparams
        if okk:
            a, b = ref[3][-1]
            txt = out.data[a:b]
            eq = M.values_equal(Str(txt), Str(bs))
            v, md = check_valid(M, eq, None)
            okk = v
        if okk: st.discharged += 1
        else:
            md = model_of(M)
            if md is None: return
            findings.append(dict(kind='mismatch', site='relay round trip', what=f'{verb}: the relayed line {bytes(model_bytes(md, out.data))!r} does not re-parse to the text sent', predicate='roundtrip',
                                 witness=dict(text=model_bytes(md, bs).hex(), verb=verb, nparams=nparams, profile=prog.profile)))
    explore(prog, run, on, stats=st, prefix=case.get('prefix'), timeout_ms=budget['solver_ms'], max_steps=budget['steps'], max_paths=budget['paths'],
            deadline=(time.time() + budget['case_s']) if budget.get('case_s') else None)
    return dict(stats=st, findings=findings, samples=samples, nontrivial=nontriv[0], case=case['name'])

@pure('encode')
def p_encode(prog, case, budget):
    st = Stats(); findings = []; nontriv = [0]
    n = case['n']
    bs = [z3.BitVec(f'l{i}', 8) for i in range(n)]
    enc = prog.resolve_crate_fn('<utils::IRCLinesCodec as tokio_util::codec::Encoder<std::string::String>>::encode')
    def run(M):
        M.assume(utf8_valid_constraint(bs))
        buf = VecV()
        r = M.run_fn(enc, [Ref(Cell(Adt('IRCLinesCodec', 0, [Adt('LinesCodec', 0, [])]))), StringV(bs), Ref(Cell(buf))])
        return [c.v for c in buf.items], r
    def on(r):
        if r.kind == 'panic':
            findings.append(dict(kind='panic', site='encode', what=str(r.value), predicate='encode-panic', witness=dict(profile=prog.profile)))
            return
        if r.kind != 'ok': return
        nontriv[0] += 1
        out, res = r.value
        st.obligations += 1
        if len(out) == n + 2 and out[-2:] == [13, 10] and all((x is y) or (isinstance(x, int) and x == y) or (is_sym(x) and is_sym(y) and z3.eq(x, y)) for x, y in zip(out[:n], bs)) and res.variant == 0:
            st.discharged += 1
        else:
            findings.append(dict(kind='mismatch', site='IRCLinesCodec::encode', what='an emitted line is not the message followed by exactly CR LF', predicate='framing', witness=dict(n=n, profile=prog.profile)))
    explore(prog, run, on, stats=st, prefix=case.get('prefix'), timeout_ms=budget['solver_ms'], max_steps=budget['steps'], max_paths=budget['paths'])
    return dict(stats=st, findings=findings, samples=[], nontrivial=nontriv[0], case=case['name'])

@pure('decode')
def p_decode(prog, case, budget):
    """IRCLinesCodec::decode hands on exactly what the line decoder of tokio_util produced: nothing is dropped, altered or invented (a frame
    swallowed here stalls the connection: Framed stops decoding on Ok(None) although complete lines are buffered)"""
    st = Stats(); findings = []; nontriv = [0]
    kind, n = case['inner'], case.get('n', 0)
    bs = [z3.BitVec(f'l{i}', 8) for i in range(n)]
    dec = prog.resolve_crate_fn('<utils::IRCLinesCodec as tokio_util::codec::Decoder>::decode')
    def run(M):
        M.assume(utf8_valid_constraint(bs))
        inner = {'none': lambda: ok(NONE()), 'line': lambda: ok(some(StringV(list(bs)))), 'toolong': lambda: err(Adt('LinesCodecError', 0, [])),
                 'io': lambda: err(Adt('LinesCodecError', 1, [Opaque('io error')]))}[kind]()
        M.env['inner_decode'] = inner
        r = M.run_fn(dec, [Ref(Cell(Adt('IRCLinesCodec', 0, [Adt('LinesCodec', 0, [])]))), Ref(Cell(VecV()))])
        return r
    def on(r):
        if r.kind == 'panic':
            findings.append(dict(kind='panic', site='IRCLinesCodec::decode', what=str(r.value), predicate='decode-panic', witness=dict(profile=prog.profile)))
            return
        if r.kind != 'ok': return
        nontriv[0] += 1; st.obligations += 1
        res = r.value; M = r.M
        good = False
        if kind == 'none': good = res.variant == 0 and res.fields[0].variant == 0
        elif kind == 'line':
            if res.variant == 0 and res.fields[0].variant == 1:
                v, _ = check_valid(M, M.values_equal(res.fields[0].fields[0], Str(list(bs))), st)
                good = v
        else: good = res.variant == 1 and res.fields[0].variant == (0 if kind == 'toolong' else 1)
        if good: st.discharged += 1
        else:
            md = model_of(M)
            lb = model_bytes(md, bs) if (md is not None and bs) else b''
            findings.append(dict(kind='mismatch', site='IRCLinesCodec::decode', what=f'the line decoder returned {kind} ({lb!r}), the codec hands on something else', predicate='decode:' + kind,
                                 witness=dict(inner=kind, line=lb.hex(), codec=True, profile=prog.profile)))
    explore(prog, run, on, stats=st, prefix=case.get('prefix'), timeout_ms=budget['solver_ms'], max_steps=budget['steps'], max_paths=budget['paths'])
    return dict(stats=st, findings=findings, samples=[], nontrivial=nontriv[0], case=case['name'])

# ------------------------------------------------------------------------------------------ classification through the connection loop
MINP = dict(CAP=1, PASS=1, NICK=1, USER=4, PING=1, PONG=1, OPER=2, JOIN=1, PART=1, TOPIC=1, INVITE=2, KICK=2, CONNECT=1, STATS=1, MODE=1, PRIVMSG=2, NOTICE=2, WHO=1, WHOIS=1, WHOWAS=1,
            KILL=2, SQUIT=2, USERHOST=1, WALLOPS=1, ISON=1)
GOODP = dict(CAP=['LS'], PASS=['x'], NICK=['zed'], USER=['u', '0', '*', 'real'], PING=['t'], PONG=['t'], OPER=['opname', 'pw'], JOIN=['#new'], PART=['#x'], TOPIC=['#x'], INVITE=['bob', '#x'], KICK=['#x', 'bob'],
             CONNECT=['a.b'], STATS=['u'], MODE=['alice'], PRIVMSG=['bob', 'hi'], NOTICE=['bob', 'hi'], WHO=['bob'], WHOIS=['bob'], WHOWAS=['bob'], KILL=['bob', 'x'], SQUIT=['a.b', 'x'], USERHOST=['bob'],
             WALLOPS=['x'], ISON=['bob'])

@judge('classify')
def j_classify(ctx):
    if ctx.outcome != 'ok': return []
    a = ctx.actor; srv = server(ctx)
    item = ctx.case.get('item')
    obs = []
    if item and item[0] == 'toolong':
        n417 = [l for l in ctx.written if numeric_pred(srv, 417, a)(l)]
        obs.append(('classify:417', 'an over-long line is answered with ERR_INPUTTOOLONG and nothing else', len(n417) == 1 and len(ctx.written) == 1))
        obs += frame_obligations(ctx, lambda k: False, 'classify:toolong-frame')
        for n in ctx.w.spec.nicks: obs += queue_silent(ctx, [n], 'classify:toolong')
        return obs
    line = ctx.line
    if not line.strip():
        obs.append(('classify:empty', 'an empty line is ignored', len(ctx.written) == 0))
        obs += frame_obligations(ctx, lambda k: False, 'classify:empty-frame')
        return obs
    r = ref_parse(line.encode())
    verb = r[1].upper().decode(); k = len(r[2])
    from props.C05 import VERBS
    if verb not in VERBS:
        n421 = [l for l in ctx.written if numeric_pred(srv, 421, a, r[1].upper().decode())(l)]
        obs.append(('classify:421', f'unknown command {verb} is answered with ERR_UNKNOWNCOMMAND only', len(n421) == 1 and len(ctx.written) == 1))
        obs += frame_obligations(ctx, lambda k: False, 'classify:421-frame')
    elif k < MINP.get(verb, 0):
        n461 = [l for l in ctx.written if numeric_pred(srv, 461, a, verb)(l)]
        obs.append(('classify:461', f'{verb} with {k} parameter(s) is answered with ERR_NEEDMOREPARAMS only', len(n461) == 1 and len(ctx.written) == 1))
        obs += frame_obligations(ctx, lambda k: False, 'classify:461-frame')
    else:
        if verb == 'AUTHENTICATE': return obs      # SASL is not supported: this server answers AUTHENTICATE like an unknown command
        n4 = [l for l in ctx.written if numeric_pred(srv, 461, a)(l) or numeric_pred(srv, 421, a)(l)]
        obs.append(('classify:executed', f'{verb} with {k} parameter(s) is neither unknown nor short of parameters', len(n4) == 0))
    return obs

def make_cases(tier, profile):
    cases = []
    ng = 6 if tier == 'quick' else 8
    for n in range(0, ng + 1):
        cases.append(dict(name=f'grammar on {n} ASCII bytes', pure='grammar', n=n, alpha='ascii'))
    for n in range(2, (4 if tier == 'quick' else 5) + 1):
        cases.append(dict(name=f'grammar on {n} UTF-8 bytes', pure='grammar', n=n, alpha='utf8'))
    for verb, npar in [('PRIVMSG', 2), ('NOTICE', 2), ('TOPIC', 2), ('PART', 2), ('KICK', 3), ('NICK', 1), ('INVITE', 2), ('WALLOPS', 1), ('AWAY', 1)]:
        for n in range(0, (4 if tier == 'quick' else 6) + 1):
            cases.append(dict(name=f'round trip {verb} text of {n} bytes', pure='roundtrip', verb=verb, nparams=npar, n=n))
    for n in (0, 1, 3):
        cases.append(dict(name=f'encode {n} bytes', pure='encode', n=n))
        cases.append(dict(name=f'decode hands on a line of {n} bytes', pure='decode', inner='line', n=n))
    for k in ('none', 'toolong', 'io'):
        cases.append(dict(name=f'decode hands on {k}', pure='decode', inner=k))
    for n in range(2, (5 if tier == 'quick' else 6) + 1):
        cases.append(dict(name=f'verb of {n} bytes with a non-ASCII character', pure='verbclass', n=n))
        cases.append(dict(name=f'verb of {n} bytes with a non-ASCII character, with parameters', pure='verbclass', n=n, tail=' bob :x'))
    spec = dict(sym_caps=False, sym_max_joins=False, sym_topic=False, sym_key=False, sym_limit=False, sym_lists=False, sym_flags=False, sym_ranks=False, sym_invites=False, sym_away=False,
                sym_modes=False, plain_chans=['&y'], nicks=['alice', 'bob', 'carol'], operators=[('opname', 'goodpw', None)])
    from props.C05 import VERBS
    lines = []
    for v in VERBS + ['FOO', 'PRIVMSGX', '123']:
        good = GOODP.get(v, [])
        for k in range(0, len(good) + 2):
            ps = (good + ['extra', 'more'])[:k]
            if ps: ps = ps[:-1] + [':' + ps[-1]] if (' ' in ps[-1] or k == len(good)) else ps
            l = ' '.join([v] + ps)
            lines.append(l)
            if k == 0: lines += [v.lower(), v.capitalize(), '  ' + v + '  ']
    for l in dict.fromkeys(lines + ['', '   ']):
        cases.append(dict(name='classify ' + repr(l)[:50], line=l, judges=['no_panic', 'classify'], spec=spec))
    cases.append(dict(name='classify over-long line', line='', item=('toolong',), judges=['no_panic', 'classify'], spec=spec))
    # relays end to end: the line queued to a receiver re-parses to what was sent (concrete texts with colons, blanks, empty)
    return cases

BOUNDS = dict(grammar='every line of up to 6 (8) bytes from the printable ASCII repertoire and of up to 4 (5) bytes of UTF-8 with at least one multi-byte character',
              roundtrip='PRIVMSG, NOTICE, TOPIC, PART, KICK, NICK, INVITE, WALLOPS, AWAY with a fully symbolic last parameter of up to 4 (6) printable ASCII bytes (colons, blanks, empty included), serialised by to_string_with_source',
              classification='all 41 verbs plus unknown ones with every arity from 0 to one beyond the maximum, three letter cases, surrounding blanks; empty and blank lines; the over-long event',
              outside='ASCII control characters other than space as separators (the server also accepts TAB etc. as separators - more lenient than the grammar, not judged); LinesCodec::decode segmentation (tokio-util, by contract: splits at LF, strips CR, error above max_length); handlers\' format!-built relays are judged by relay_pred in C01/C04/C09')

def confirm(run, cands):
    from mirsym import ircreplay
    sock = [f for f in cands if 'world' in f['witness']]
    ircreplay.confirm_findings(run, sock)
    rest = [f for f in cands if 'world' not in f['witness']]
    for prof, rel in (('dev', False), ('rel', True)):
        fs = [f for f in rest if f['witness'].get('profile') == prof]
        if not fs: continue
        reqs = []
        for f in fs:
            w = f['witness']
            if w.get('codec'): reqs.append(('codec_decode_all', [bytes.fromhex(w['line']) + b'\r\nnext\r\n']))
            elif w.get('classify'): reqs.append(('from_message', [bytes.fromhex(w['line'])]))
            elif 'line' in w: reqs.append(('from_shared_str', [bytes.fromhex(w['line'])]))
            elif 'text' in w:
                line = (w['verb'] + ' ' + ' '.join(['#chan'] * (w.get('nparams', 1) - 1))).strip().encode() + b' :' + bytes.fromhex(w['text'])
                reqs.append(('relay_roundtrip', [line, b'nick!user@host']))
            else: reqs.append(('encode', [b'abc']))
        outs = run.native_calls(reqs, release=rel)
        for f, rq, (status, payload) in zip(fs, reqs, outs):
            fi = Finding(PROP, f['kind'], f['site'], f['what'], f['witness'], role=dict(predicate=f['predicate']), replay=dict(function=rq[0], args=[a.hex() for a in rq[1]], profile=prof))
            txt = payload.decode('utf-8', 'replace')
            fi.native = status + ': ' + txt
            if f['kind'] == 'panic': fi.confirmed = status == 'panic'
            elif rq[0] == 'from_shared_str':
                # compare the native Debug rendering with the reference parse of the concrete line
                lb = rq[1][0]
                ref = ref_parse(lb)
                if ref is None: fi.confirmed = not txt.startswith('Err')
                else:
                    want = 'Ok(Message { source: %s, command: "%s", params: [%s] })' % (
                        'None' if ref[0] is None else 'Some("%s")' % ref[0].decode('utf-8', 'replace'), ref[1].decode('utf-8', 'replace'), ', '.join('"%s"' % p.decode('utf-8', 'replace') for p in ref[2]))
                    fi.confirmed = (txt.replace('\\"', '"') != want) and not (txt.startswith('Err("Wrong source') )
            elif rq[0] == 'codec_decode_all':
                # the real codec over a buffer with two complete lines must yield both (confirmed when it does not)
                want = [bytes.fromhex(w['line']).decode('utf-8', 'replace'), 'next']
                fi.confirmed = txt != repr(want).replace("'", '"')
            elif rq[0] == 'from_message':
                # confirmed when the real parser does not answer UnknownCommand either
                fi.confirmed = 'UnknownCommand' not in txt
            elif rq[0] == 'relay_roundtrip':
                parts = txt.split('\n')
                fi.confirmed = len(parts) < 3 or parts[0].replace('source: None', 'X') != parts[2].replace('Ok(', '').rstrip(')').replace('source: Some("nick!user@host")', 'X')
            else: fi.confirmed = None
            run.add_finding(fi)

if __name__ == '__main__':
    run_property(PROP, sys.argv[1], int(sys.argv[2]), make_cases, BOUNDS,
                 ['the reference tokenizer is RFC 1459 section 2.3.1 with space as the only separator'], confirm=confirm)
