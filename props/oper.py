"""Oracles for user modes, OPER, operator commands (C11) and statistics / presence (C19)."""
import z3
from mirsym.steplib import judge, call, setup
from mirsym.post import And, Or, Not, Iff, Implies, opt_cond, BV, bv_sum, L
from mirsym.values import *
from mirsym.world import fld
from mirsym.models.fmt_m import DecSeg
from props.oracles import *
from props.C14 import py_glob

def ite(c, a, b):
    if isinstance(c, bool): return a if c else b
    return Or(And(c, a), And(Not(c), b))

def parse_umodes(tokens):
    out = []
    for ms in tokens:
        sign = True
        for ch in ms:
            if ch == '+': sign = True
            elif ch == '-': sign = False
            else: out.append((sign, ch))
    return out

@judge('umode')
def j_umode(ctx):
    r = ref_parse(ctx.line.encode())
    if r[1].upper() != b'MODE' or ctx.outcome != 'ok': return []
    ps = [p.decode() for p in r[2]]
    t = ps[0]
    if t.startswith(('#', '&')): return []
    pre, post, a, w = ctx.pre, ctx.post, ctx.actor, ctx.w
    srv = server(ctx)
    obs = []
    if t != a:
        known = pre.user_live(t) if t in pre.users else False
        n502 = len([l for l in ctx.written if numeric_pred(srv, 502, a)(l)])
        n401 = len([l for l in ctx.written if numeric_pred(srv, 401, a, t)(l)])
        obs.append(('umode:foreign', 'MODE on another user is answered 502', Iff(n502 == 1, known)))
        obs.append(('umode:foreign', 'MODE on an unknown nick is answered 401', Iff(n401 == 1, Not(known))))
        obs += frame_obligations(ctx, lambda k: False, 'umode:foreign-frame')
        obs += counters_frame(ctx)
        return obs
    changes = parse_umodes(ps[1:])
    m0 = pre.users[a]['modes']; m1 = post.users[a]['modes']
    cur = dict(m0)
    dropped_by_O = False
    for sign, ch in changes:
        if ch == 'i': cur['invisible'] = sign
        elif ch == 'w': cur['wallops'] = sign
        elif ch == 'o':
            if not sign: cur['oper'] = False              # +o through MODE never grants
        elif ch == 'O':
            if not sign: cur['local_oper'] = False; dropped_by_O = True
    obs.append(('umode:invisible', 'MODE: +i/-i set and clear invisibility', Iff(m1['invisible'], cur['invisible'])))
    obs.append(('umode:wallops', 'MODE: +w/-w set and clear WALLOPS reception', Iff(m1['wallops'], cur['wallops'])))
    obs.append(('umode:oper-grant', 'MODE never confers operator status (+o)', Implies(m1['oper'], m0['oper'])))
    obs.append(('umode:oper-grant', 'MODE never confers local operator status (+O)', Implies(m1['local_oper'], m0['local_oper'])))
    if any(ch == 'o' for _, ch in changes) or any(ch == 'O' for _, ch in changes):
        if dropped_by_O:
            # -O may also drop the (stronger) operator flag: giving up privileges is always allowed
            obs.append(('umode:oper-drop', 'MODE: operator status afterwards is at most what removing the named modes leaves', Implies(m1['oper'], cur['oper'])))
        else:
            obs.append(('umode:oper-drop', 'MODE: operator status afterwards is what removing the named modes leaves', Iff(m1['oper'], cur['oper'])))
        obs.append(('umode:oper-drop', 'MODE: local operator status afterwards is what removing the named modes leaves', Iff(m1['local_oper'], cur['local_oper'])))
    else:
        obs.append(('umode:oper-keep', 'MODE without o/O leaves operator status alone', And(Iff(m1['oper'], m0['oper']), Iff(m1['local_oper'], m0['local_oper']))))
    if len(ps) == 1:
        # a query (no mode string at all); a mode string without letters is a no-op the statement says nothing about
        n221 = len([l for l in ctx.written if numeric_pred(srv, 221, a)(l)])
        obs.append(('umode:query', 'MODE <own nick> answers 221', n221 == 1))
    obs += frame_obligations(ctx, lambda k: (k[0] == 'umode' and k[1] == a) or (k[0] == 'wallops' and k[1] == a), 'umode:frame')
    for n in w.spec.nicks:
        if n != a: obs += queue_silent(ctx, [n], 'umode:others')
    return obs

@judge('oper')
def j_oper(ctx):
    r = ref_parse(ctx.line.encode())
    if r[1].upper() != b'OPER' or ctx.outcome != 'ok': return []
    name, pw = r[2][0].decode(), r[2][1].decode()
    pre, post, a, w = ctx.pre, ctx.post, ctx.actor, ctx.w
    srv = server(ctx)
    cfg = [o for o in w.spec.operators if o[0] == name]
    src = src_of(ctx, a)
    if cfg:
        o = cfg[0]
        good = (pw == o[1])
        mask_ok = (o[2] is None) or py_glob(o[2], src)
        granted = good and mask_ok
    else:
        good = mask_ok = granted = False
    m0 = pre.users[a]['modes']; m1 = post.users[a]['modes']
    obs = [('oper:grant', 'OPER: operator status afterwards iff held before or rightly claimed now', Iff(m1['oper'], Or(m0['oper'], granted))),
           ('oper:local', 'OPER does not touch local operator status', Iff(m1['local_oper'], m0['local_oper']))]
    n381 = len([l for l in ctx.written if numeric_pred(srv, 381, a)(l)])
    n464 = len([l for l in ctx.written if numeric_pred(srv, 464, a)(l)])
    n491 = len([l for l in ctx.written if numeric_pred(srv, 491, a)(l)])
    obs.append(('oper:reply', '381 exactly when granted', (n381 == 1) == granted))
    obs.append(('oper:reply', 'a refusal is answered with 464 (bad password) or 491 (no such operator / mask)', granted or (n464 + n491 >= 1)))
    obs.append(('oper:reply', '464 only for a configured name with a wrong password', n464 == 0 or (bool(cfg) and not good)))
    obs += frame_obligations(ctx, lambda k: k == ('umode', a, 'oper'), 'oper:frame')
    for n in w.spec.nicks:
        if n != a: obs += queue_silent(ctx, [n], 'oper:others')
    return obs

def kill_state(ctx):
    return {n: (os_.sent, os_.value) for n, os_ in ctx.w.kill.items() if not n.startswith('conn:')}

@judge('opcmd')
def j_opcmd(ctx):
    r = ref_parse(ctx.line.encode())
    verb = r[1].upper().decode()
    if verb not in ('KILL', 'DIE', 'SQUIT', 'WALLOPS', 'STATS') or ctx.outcome != 'ok': return []
    ps = [p.decode() for p in r[2]]
    pre, post, a, w, M = ctx.pre, ctx.post, ctx.actor, ctx.w, ctx.M
    srv = server(ctx); nicks = w.spec.nicks
    m0 = pre.users[a]['modes']
    oper, anyop = m0['oper'], Or(m0['oper'], m0['local_oper'])
    obs = []
    ks = kill_state(ctx)
    if verb == 'KILL' and len(ps) < 2:
        # refused by the parser (461): nothing may happen
        return [('kill:guard', 'KILL without a comment is refused and does nothing', not any(sent for sent, _ in ks.values()))] + frame_obligations(ctx, lambda k: False, 'kill:frame')
    if verb == 'KILL':
        victim, comment = ps[0], ps[1]
        known = pre.user_live(victim) if victim in pre.users else False
        for n in nicks:
            sent, val = ks[n]
            if n == victim:
                obs.append(('kill:effect', f'KILL disconnects {n} when issued by an operator', Implies(And(oper, known), sent)))
                obs.append(('kill:guard', f'KILL by a user who is not a (full) operator does nothing', Implies(Not(oper), not sent)))
                if sent:
                    obs.append(('kill:who', 'the victim is told who killed it and why',
                                And(M.values_equal(val[0], mkstr(a)), M.values_equal(val[1], mkstr(comment)))))
            else:
                obs.append(('kill:exact', f'KILL touches nobody else ({n})', not sent))
        n481 = len([l for l in ctx.written if numeric_pred(srv, 481, a)(l)])
        obs.append(('kill:reply', 'KILL: privilege error for everybody but (full) operators', Implies(Not(oper), n481 == 1)))
        obs.append(('kill:reply', 'KILL: no privilege error for operators', Implies(oper, n481 == 0)))
        n401 = len([l for l in ctx.written if numeric_pred(srv, 401, a, victim)(l)])
        obs.append(('kill:reply', 'KILL: 401 for an unknown nick', Implies(And(oper, Not(known)), n401 == 1)))
        obs.append(('kill:server', 'KILL does not stop the server', not w.server_quit.sent))
    elif verb in ('DIE', 'SQUIT'):
        applies = verb == 'DIE' or ps[0] == w.spec.server
        for n in nicks:
            sent, val = ks[n]
            if applies:
                obs.append(('die:effect', f'{verb} ends the session of {n} when issued by an operator', Implies(And(oper, pre.user_live(n)), sent)))
            obs.append(('die:guard', f'{verb} by a user who is not a (full) operator ends no session', Implies(Not(oper), not sent)))
            if not applies: obs.append(('die:other-server', f'{verb} naming another server ends no session', not sent))
        if not applies: obs.append(('die:other-server', f'{verb} naming another server does not stop this server', not w.server_quit.sent))
        if applies:
            obs.append(('die:server', f'{verb} by an operator stops the server', Implies(oper, w.server_quit.sent)))
        obs.append(('die:server', f'{verb} by a user who is not a (full) operator does not stop the server', Implies(Not(oper), not w.server_quit.sent)))
        if applies:
            nerr = len([l for l in ctx.written if numeric_pred(srv, 483, a)(l) or numeric_pred(srv, 481, a)(l)])
            obs.append(('die:reply', f'{verb}: privilege error for everybody but (full) operators', Implies(Not(oper), nerr == 1)))
            obs.append(('die:reply', f'{verb}: no privilege error for operators', Implies(oper, nerr == 0)))
    elif verb == 'WALLOPS':
        text = ps[0]
        src = src_of(ctx, a)
        wp = relay_pred(src, 'WALLOPS', [text])
        for n in nicks:
            k = len([l for l in ctx.queues.get(n, []) if wp(l)])
            due = And(anyop, pre.user_live(n), pre.users[n]['modes']['wallops'])
            obs.append(('wallops:audience', f'WALLOPS reaches {n} exactly when sent by a (local) operator and {n} has +w', Iff(k == 1, due)))
            obs.append(('wallops:audience', 'no duplicates', k <= 1))
            extra = [l for l in ctx.queues.get(n, []) if not wp(l)]
            if extra: obs.append(('wallops:unexpected', f'unexpected line to {n}: {buf_text(extra[0])!r}', False))
        n481 = len([l for l in ctx.written if numeric_pred(srv, 481, a)(l)])
        obs.append(('wallops:reply', 'WALLOPS: privilege error exactly for non-operators', Iff(n481 == 1, Not(anyop))))
    elif verb == 'STATS':
        n481 = len([l for l in ctx.written if numeric_pred(srv, 481, a)(l)])
        n219 = len([l for l in ctx.written if numeric_pred(srv, 219, a)(l)])
        if len(ps) == 1:
            obs.append(('stats:guard', 'STATS: privilege error exactly for non-operators', Iff(n481 == 1, Not(anyop))))
            obs.append(('stats:guard', 'STATS: answered exactly for (local) operators', Iff(n219 == 1, anyop)))
    if verb not in ('KILL', 'DIE', 'SQUIT'):
        for n in nicks:
            obs.append(('opcmd:nokill', f'{verb} ends no session ({n})', not ks[n][0]))
    obs += frame_obligations(ctx, lambda k: False, 'opcmd:frame')
    obs += counters_frame(ctx)
    return obs

# ------------------------------------------------------------------------------------------ statistics / presence
def numbers_in(line):
    """numeric tokens of a rendered line: python ints for digit tokens, z3 terms for decimal segments"""
    out = []
    tok = []
    def flush():
        if not tok: return
        if len(tok) == 1 and isinstance(tok[0], DecSeg): out.append(tok[0].term)
        elif all(isinstance(x, int) and 48 <= x <= 57 for x in tok): out.append(int(bytes(tok)))
        del tok[:]
    for x in line:
        if isinstance(x, int) and x in (32, 44, 58):
            flush()
        else:
            tok.append(x)
    flush()
    return out

def eqn(a, b):
    if isinstance(a, int) and isinstance(b, int): return a == b
    return BV(a) == BV(b)

@judge('lusers')
def j_lusers(ctx):
    r = ref_parse(ctx.line.encode())
    if r[1].upper() != b'LUSERS' or ctx.outcome != 'ok': return []
    pre, a = ctx.pre, ctx.actor
    # the numerics are addressed to the connection's current nick (a prelude may have renamed it)
    try:
        nk = fld(ctx.prog, fld(ctx.prog, ctx.conn['cell'].v, 'user_state'), 'nick')
        if isinstance(nk.variant, int) and nk.variant == 1 and nk.fields[0].py(): a = nk.fields[0].py()
    except Exception:
        pass
    srv = server(ctx)
    total = pre.n_users()
    inv = bv_sum([And(u['live'], u['modes']['invisible']) for u in pre.users.values()])
    ops = bv_sum([And(u['live'], Or(u['modes']['oper'], u['modes']['local_oper'])) for u in pre.users.values()])
    chans = pre.n_chans()
    obs = []
    def one(num):
        ls = [l for l in ctx.written if numeric_pred(srv, num, a)(l)]
        obs.append(('lusers:present', f'LUSERS sends {num}', len(ls) == 1))
        return numbers_in(ls[0][len(f':{srv} {num} {a}'):]) if len(ls) == 1 else None
    n = one(251)
    if n is not None and len(n) >= 2:
        obs.append(('lusers:251', '251 reports the number of invisible users', eqn(n[1], inv)))
        obs.append(('lusers:251', '251 reports the number of (visible or all) users', Or(eqn(n[0], total), eqn(n[0], total - inv))))
    n = one(252)
    if n: obs.append(('lusers:252', '252 reports the number of operators', eqn(n[0], ops)))
    n = one(254)
    if n: obs.append(('lusers:254', '254 reports the number of channels', eqn(n[0], chans)))
    n = one(255)
    if n: obs.append(('lusers:255', '255 reports the number of clients', eqn(n[0], total)))
    for num in (265, 266):
        n = one(num)
        if n is not None and len(n) >= 2:
            obs.append((f'lusers:{num}', f'{num} reports the current number of users', eqn(n[0], total)))
            obs.append((f'lusers:{num}', f'{num} reports the true high-water mark', And(eqn(n[1], pre.max_count), z3.UGE(BV(n[1]), total))))
    obs += frame_obligations(ctx, lambda k: False, 'lusers:frame')
    obs += counters_frame(ctx)
    return obs

@judge('ison')
def j_ison(ctx):
    r = ref_parse(ctx.line.encode())
    verb = r[1].upper().decode()
    if verb not in ('ISON', 'USERHOST') or ctx.outcome != 'ok': return []
    pre, a = ctx.pre, ctx.actor
    srv = server(ctx)
    asked = [p.decode() for p in r[2]]
    num = 303 if verb == 'ISON' else 302
    listed = {}
    for l in ctx.written:
        if numeric_pred(srv, num, a)(l) and is_concrete(l):
            pr = ref_parse(l)
            for tok in (pr[2][1].decode().split() if len(pr[2]) > 1 else []):
                nick = tok.split('=')[0].rstrip('*') if verb == 'USERHOST' else tok
                listed[nick] = tok
    obs = []
    for n in dict.fromkeys(asked):
        on = pre.user_live(n) if n in pre.users else False
        obs.append((verb.lower() + ':presence', f'{verb} lists {n} exactly when it is registered', Iff(n in listed, on)))
        if verb == 'USERHOST' and n in listed and n in pre.users:
            tok = listed[n]
            u = pre.users[n]
            obs.append(('userhost:oper', f'USERHOST marks {n} with * exactly when it is a (local) operator', Iff(tok.split('=')[0].endswith('*'), Or(u['modes']['oper'], u['modes']['local_oper']))))
            obs.append(('userhost:away', f'USERHOST marks {n} as away (-) exactly when it is', Iff(tok.split('=')[1][:1] == '-', u['away'])))
    for n in listed:
        if n not in asked: obs.append((verb.lower() + ':extra', f'{verb} lists {n} which was not asked for', False))
    obs += frame_obligations(ctx, lambda k: False, verb.lower() + ':frame')
    return obs

# ------------------------------------------------------------------------------------------ connection slots
@call('register_conn')
def c_register_conn(ctx):
    """MainState::register_conn_state with a symbolic current count and limit"""
    M, w, prog = ctx.M, ctx.w, ctx.prog
    cnt = z3.BitVec('conns_now', 64); mx = z3.BitVec('conns_max', 64); has = z3.Bool('has_max_connections')
    M.assume(z3.ULT(cnt, z3.BitVecVal(1 << 62, 64)))
    from mirsym.world import opt_sym
    w.conns_count.cell.v.fields[0] = cnt
    cfg = w.main.fields[prog.struct_field('MainState', 'config')]
    cfg.fields[prog.struct_field('MainConfig', 'max_connections')] = opt_sym(has, mx)
    name = prog.resolve_crate_fn('state::MainState::register_conn_state')
    from mirsym.models.tokio_m import mk_framed, LineSource
    r = M.run_fn(name, [Ref(w.main_cell), Opaque('ip', b'127.0.0.1'), mk_framed(LineSource())])
    ctx.slot = dict(cnt=cnt, mx=mx, has=has, res=r, after=w.conns_count.cell.v.fields[0])
    return r

@judge('conn_slots')
def j_conn_slots(ctx):
    if ctx.outcome != 'ok': return []
    s = ctx.slot
    from mirsym.models.core_m import opt_some_cond
    got = opt_some_cond(s['res'])
    admit = Or(Not(s['has']), z3.ULT(s['cnt'], s['mx']))
    return [('slots:admit', 'a connection is accepted exactly when below max_connections', Iff(got, admit)),
            ('slots:count', 'an accepted connection occupies one slot, a refused one none', BV(s['after']) == z3.If(L(admit), s['cnt'] + 1, s['cnt']))]
