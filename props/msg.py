"""Oracles for PRIVMSG / NOTICE (C01 audience and attribution, C10 speaking restrictions, NOTICE silence, away)."""
import z3
from mirsym.steplib import judge
from mirsym.post import And, Or, Not, Iff, Implies, opt_cond
from mirsym.values import *
from props.oracles import *
from props.C14 import py_glob

STATUS = {'~': 'founder', '&': 'protected', '@': 'operator', '%': 'half_oper', '+': 'voice'}

def ref_target(t):
    """-> ('chan', prefixes, name) | ('nick', '', t): status prefixes are stripped up to the channel sigil; '&' directly
    before the name is the local-channel sigil"""
    j = 0
    while j < len(t) and t[j] in '~&@%+': j += 1
    if j < len(t) and t[j] == '#':
        return ('chan', t[:j], t[j:]) if j + 1 < len(t) else ('nick', '', t)
    if j < len(t) and j > 0 and t[j - 1] == '&':
        return ('chan', t[:j - 1], t[j - 1:])
    return ('nick', '', t)

def any_match(masks_live, source):
    return Or(*[l for m, l in masks_live.items() if py_glob(m, source)])

def accept_chan(pre, a, c, src):
    ch = pre.chans[c]
    mem = pre.member(a, c)
    open_ = And(Not(ch['flags']['no_external_messages']), Not(ch['flags']['secret']))
    banned = And(any_match(ch['ban'], src), Not(any_match(ch['exception'], src)))
    voiced = And(mem, r_voice(pre, a, c))
    return And(pre.chan_live(c), Or(mem, open_), Not(banned), Or(Not(ch['flags']['moderated']), voiced))

def _msg_common(ctx):
    r = ref_parse(ctx.line.encode())
    verb = r[1].upper().decode()
    if verb not in ('PRIVMSG', 'NOTICE') or ctx.outcome != 'ok': return None
    ps = [p.decode() for p in r[2]]
    targets = list(dict.fromkeys(ps[0].split(',')))
    return verb, targets, ps[1]

@judge('msg_delivery')
def j_msg_delivery(ctx):
    """C01: exactly one copy per accepted distinct target to each audience member, truly attributed, nothing else to anybody"""
    mc = _msg_common(ctx)
    if mc is None: return []
    verb, targets, text = mc
    pre, post, a, w = ctx.pre, ctx.post, ctx.actor, ctx.w
    nicks = w.spec.nicks
    src = src_of(ctx, a)
    obs = []
    exp = {n: [] for n in nicks}
    for t in targets:
        kind, pfx, name = ref_target(t)
        if kind == 'chan':
            if name not in pre.chans: continue
            acc = accept_chan(pre, a, name, src)
            for n in nicks:
                if n == a: continue
                holds = True if not pfx else Or(*[pre.rank(n, name, STATUS[p]) for p in set(pfx)])
                exp[n].append((f'{verb} {t} to {n}', And(acc, pre.member(n, name), holds), relay_pred(src, verb, [t, text])))
        else:
            if name in nicks and name != a:
                exp[name].append((f'{verb} {t} to its owner', pre.user_live(name), relay_pred(src, verb, [t, text])))
    for n in nicks:
        if n == a:
            # the sender: nothing, except that a message to one's own nick may or may not be echoed (statement is ambiguous)
            own = relay_pred(src, verb, [a, text])
            extra = [l for l in ctx.queues.get(n, []) if not own(l)]
            if extra: obs.append(('msg:sender-copy', f'{verb}: the sender receives {buf_text(extra[0])!r}', False))
            if len([l for l in ctx.queues.get(n, []) if own(l)]) > 1: obs.append(('msg:duplicate', 'two copies to the own nick', False))
            continue
        obs += delivery_obligations('msg:deliver', ctx.queues.get(n, []), exp[n])
    obs += frame_obligations(ctx, lambda k: False, 'msg:frame')
    obs += counters_frame(ctx)
    return obs

@judge('msg_restrict')
def j_msg_restrict(ctx):
    """C10: +n/+s/+m/bans decide delivery; PRIVMSG refusals get exactly one 404/403/401; NOTICE is never answered; away text"""
    mc = _msg_common(ctx)
    if mc is None: return []
    verb, targets, text = mc
    pre, a, w = ctx.pre, ctx.actor, ctx.w
    nicks = w.spec.nicks
    src = src_of(ctx, a); srv = server(ctx)
    obs = []
    if verb == 'NOTICE':
        if ctx.written:
            obs.append(('notice:answered', f'NOTICE is answered with {buf_text(ctx.written[0])!r}', False))
    exp = []
    for t in targets:
        kind, pfx, name = ref_target(t)
        if kind == 'chan':
            if name in pre.chans:
                acc = accept_chan(pre, a, name, src)
                exists = pre.chan_live(name)
                # delivered to nobody when not accepted
                for n in nicks:
                    if n == a: continue
                    k = len([l for l in ctx.queues.get(n, []) if relay_pred(src, verb, [t, text])(l)])
                    obs.append(('msg:restricted', f'{verb} {t}: nothing reaches {n} when the sender may not speak', Implies(Not(acc), k == 0)))
                if verb == 'PRIVMSG':
                    exp.append((f'404 for {t}', And(exists, Not(acc)), numeric_pred(srv, 404, a, name)))
                    exp.append((f'403 for {t}', Not(exists), numeric_pred(srv, 403, a, name)))
            elif verb == 'PRIVMSG':
                exp.append((f'403 for {t}', True, numeric_pred(srv, 403, a, name)))
        else:
            if verb == 'PRIVMSG':
                known = pre.user_live(name) if name in pre.users else False
                exp.append((f'401 for {t}', Not(known), numeric_pred(srv, 401, a, name)))
                if name in pre.users:
                    exp.append((f'301 for {t}', And(known, pre.users[name]['away']), numeric_pred(srv, 301, a, name)))
    if verb == 'PRIVMSG':
        # several targets naming the same channel may each produce their own 404: compare per distinct numeric line
        merged = {}
        for d, c, p in exp:
            if p.desc in merged: merged[p.desc] = (d, Or(merged[p.desc][1], c), p)
            else: merged[p.desc] = (d, c, p)
        dedup_written = []
        seen = set()
        for l in ctx.written:
            key = bytes(x for x in l if isinstance(x, int))
            if key in seen and is_concrete(l): continue
            seen.add(key); dedup_written.append(l)
        obs += delivery_obligations('msg:reply', dedup_written, list(merged.values()))
        for t in targets:
            kind, pfx, name = ref_target(t)
            if kind == 'nick' and name in pre.users:
                for l in ctx.written:
                    if numeric_pred(srv, 301, a, name)(l) and is_concrete(l):
                        txt = ref_parse(l)[2][-1].decode()
                        obs.append(('msg:away-text', 'the away reply carries that user\'s away text', txt == w.spec.away_text))
    return obs
