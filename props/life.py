"""Oracles for membership life-cycle: PART, NICK, session teardown, channel destruction / re-creation, reader views."""
import z3
from mirsym.steplib import judge, call
from mirsym.post import And, Or, Not, Iff, Implies, opt_cond, BV, bv_sum, Snapshot
from mirsym.values import *
from mirsym.world import fld
from mirsym.models.tokio_m import poll_future
from props.oracles import *

# ------------------------------------------------------------------------------------------ calls
@call('remove_user')
def c_remove_user(ctx):
    """what user_state_process does after its loop: MainState::remove_user(&conn_state)"""
    M, w, prog = ctx.M, ctx.w, ctx.prog
    name = prog.resolve_crate_fn('state::MainState::remove_user')
    fut = M.run_fn(name, [Ref(w.main_cell), Ref(ctx.conn['cell'])])
    return w.run_to_completion(fut)

@call('drop_conn')
def c_drop_conn(ctx):
    M = ctx.M
    before = ctx.w.conns_count.cell.v.fields[0]
    M.drop_value(ctx.conn['cell'].v)
    return (before, ctx.w.conns_count.cell.v.fields[0])

# ------------------------------------------------------------------------------------------ PART
@judge('part')
def j_part(ctx):
    r = ref_parse(ctx.line.encode())
    if r[1].upper() != b'PART' or ctx.outcome != 'ok': return []
    ps = [p.decode() for p in r[2]]
    chans = ps[0].split(','); reason = ps[1] if len(ps) > 1 else None
    if len(set(chans)) != len(chans): return []
    pre, post, a, w = ctx.pre, ctx.post, ctx.actor, ctx.w
    nicks = w.spec.nicks; srv = server(ctx); src = src_of(ctx, a)
    obs = []
    for c in chans:
        exists, on = pre.chan_live(c), pre.member(a, c)
        obs.append(('part:membership', f'PART {c}: the parter is no member afterwards', Not(post.member(a, c))))
        obs.append(('part:userside', f'PART {c}: the user record no longer lists the channel', Not(post.user_in(a, c))))
        for n in nicks:
            if n == a: continue
            obs.append(('part:others', f'PART {c}: membership of {n} unchanged', Iff(post.member(n, c), pre.member(n, c))))
        left = Or(*[pre.member(n, c) for n in nicks if n != a])
        pc = pre.chans[c]['preconf'] if c in pre.chans else False
        obs.append(('part:channel-life', f'PART {c}: the channel survives iff it is preconfigured or still has members (or the parter was not on it)',
                    Iff(post.chan_live(c), And(exists, Or(pc, left, Not(on))))))
        pp = relay_pred(src, 'PART', [c] + ([reason] if reason is not None else []))
        for n in nicks:
            q = [l for l in ctx.queues.get(n, []) if pp(l)]
            obs.append(('part:announce', f'PART {c}: announced to {n} exactly when the parter and {n} were members (the parter included)',
                        Iff(len(q) == 1, And(on, pre.member(n, c)))))
            obs.append(('part:announce', 'PART: no duplicates', len(q) <= 1))
        exp = [('403', Not(exists), numeric_pred(srv, 403, a, c)), ('442', And(exists, Not(on)), numeric_pred(srv, 442, a, c))]
        mine = [l for l in ctx.written if numeric_pred(srv, 403, a, c)(l) or numeric_pred(srv, 442, a, c)(l)]
        obs += delivery_obligations('part:reply', mine, exp)
        if c in pre.chans and c in post.chans:
            for f in CHFLAGS:
                obs.append(('part:frame', f'PART {c}: a surviving channel keeps flag {f}', Implies(post.chan_live(c), Iff(post.chans[c]['flags'][f], pre.chans[c]['flags'][f]))))
    for n in nicks:
        extra = [l for l in ctx.queues.get(n, []) if not any(relay_pred(src, 'PART', [c] + ([reason] if reason is not None else []))(l) for c in chans)]
        if extra: obs.append(('part:unexpected', f'PART: unexpected line to {n}: {buf_text(extra[0])!r}', False))
    touched = set(chans)
    def allow(k):
        if k[0] in ('member', 'userchan', 'rank') and k[1] == a and k[2] in touched: return True
        if k[0] in ('chan', 'preconf', 'flag', 'haskey', 'haslimit', 'hastopic', 'ban', 'exc', 'invex') and k[1] in touched: return True
        if k[0] in ('member', 'rank') and k[2] in touched: return True      # judged above (channel may vanish)
        return False
    obs += frame_obligations(ctx, allow, 'part:frame')
    obs += counters_frame(ctx)
    return obs

# ------------------------------------------------------------------------------------------ NICK (registered)
def valid_nick(n):
    return not (n and n[0] in '#&') and not any(ch in n for ch in '.:,')

@judge('nick')
def j_nick(ctx):
    r = ref_parse(ctx.line.encode())
    if r[1].upper() != b'NICK' or ctx.outcome != 'ok': return []
    new = r[2][0].decode()
    pre, post, a, w, M = ctx.pre, ctx.post, ctx.actor, ctx.w, ctx.M
    nicks = w.spec.nicks; srv = server(ctx); oldsrc = src_of(ctx, a)
    obs = []
    taken = pre.user_live(new) if new in pre.users else False
    ok = And(valid_nick(new), new != a, Not(taken))
    refused = Or(not valid_nick(new), taken) if new != a else False
    chans = sorted(set(pre.chans) | set(post.chans))
    if new != a:
        obs.append(('nick:users', 'NICK: the new nickname is registered exactly when accepted (or already was)', Iff(post.user_live(new), Or(ok, taken))))
        obs.append(('nick:users', 'NICK: the old nickname is free exactly when accepted', Iff(post.user_live(a), Not(ok))))
        if new in post.users:
            un, uo = post.users[new], pre.users[a]
            for m in UMODES:
                obs.append(('nick:modes', f'NICK: user mode {m} is carried over', Implies(ok, Iff(un['modes'][m], uo['modes'][m]))))
            obs.append(('nick:away', 'NICK: away state is carried over', Implies(ok, Iff(un['away'], uo['away']))))
            for c in chans:
                obs.append(('nick:invites', f'NICK: a pending invitation to {c} is carried over', Implies(ok, Iff(un['invited'].get(c, False), uo['invited'].get(c, False)))))
                obs.append(('nick:membership', f'NICK: membership of {c} moves to the new nick', Implies(ok, Iff(post.member(new, c), pre.member(a, c)))))
                obs.append(('nick:membership', f'NICK: the old nick is on no channel', Implies(ok, Not(post.member(a, c)))))
                for rk in RANKS:
                    obs.append(('nick:rank', f'NICK: rank {rk} on {c} is carried over', Implies(And(ok, pre.member(a, c)), Iff(post.rank(new, c, rk), pre.rank(a, c, rk)))))
            obs.append(('nick:wallops', 'NICK: WALLOPS reception moves to the new nick', Implies(ok, Iff(post.wallops.get(new, False), pre.wallops.get(a, False)))))
            obs.append(('nick:wallops', 'NICK: the old nick leaves the WALLOPS audience', Implies(ok, Not(post.wallops.get(a, False)))))
            want_src = f'{new}!~{w.spec.uname(a)}@127.0.0.1'
            obs.append(('nick:source', 'NICK: the user is known by its new nick!user@host', Implies(ok, M.values_equal(un['source'], mkstr(want_src)))))
        hl = post.histories.get(a, (False, None))[0]
        obs.append(('nick:history', 'NICK: the old nick is recorded for WHOWAS', Implies(ok, hl)))
        # ... with the identity the user had: user name, host, real name and sign-on time (not the time of its last activity)
        try:
            hv = post.histories.get(a, (False, None))[1]
            vec = M.rdd(hv) if isinstance(hv, (Ref, BoxV)) else (hv.v if isinstance(hv, Cell) else hv)
            if isinstance(vec, VecV) and vec.items:
                ent = vec.items[-1].v
                uc = w.user_cells[a].v
                so_user = fld(ctx.prog, uc, 'signon')
                g = lambda n_: fld(ctx.prog, ent, n_)
                same_time = (g('signon') == so_user) if (is_sym(g('signon')) or is_sym(so_user)) else (g('signon') == so_user)
                obs.append(('nick:history-entry', 'NICK: the WHOWAS record carries the sign-on time of the user', Implies(ok, same_time)))
                obs.append(('nick:history-entry', 'NICK: the WHOWAS record carries the user name, host and real name of the user',
                            Implies(ok, And(M.values_equal(g('username'), mkstr(w.spec.uname(a))), M.values_equal(g('hostname'), mkstr('127.0.0.1')), M.values_equal(g('realname'), mkstr(w.spec.realname(a)))))))
        except Exception:
            pass
        cn = fld(ctx.prog, fld(ctx.prog, ctx.conn['cell'].v, 'user_state'), 'nick')
        obs.append(('nick:conn', 'NICK: the connection goes by the new nick exactly when accepted',
                    Iff(M.values_equal(cn.fields[0], mkstr(new)), ok)))
    # announcements
    np = relay_pred(oldsrc, 'NICK', [new])
    for n in nicks:
        q = ctx.queues.get(n, [])
        k = len([l for l in q if np(l)])
        shares = Or(*[And(pre.member(a, c), pre.member(n, c)) for c in pre.chans]) if n != a else True
        obs.append(('nick:announce', f'NICK: announced to {n} when accepted and {"it is the user itself" if n == a else "they share a channel"}',
                    Implies(And(ok, shares, pre.user_live(n)), k == 1)))
        obs.append(('nick:announce', f'NICK: nothing announced to {n} when refused', Implies(Not(ok), k == 0)))
        obs.append(('nick:announce', 'NICK: no duplicates', k <= 1))
        extra = [l for l in q if not np(l)]
        if extra: obs.append(('nick:unexpected', f'NICK: unexpected line to {n}: {buf_text(extra[0])!r}', False))
    n433 = len([l for l in ctx.written if numeric_pred(srv, 433, a, new)(l)])
    obs.append(('nick:reply', 'NICK: 433 exactly when the nickname is held by another user', Iff(n433 == 1, And(valid_nick(new), new != a, taken))))
    if not valid_nick(new):
        obs.append(('nick:reply', 'NICK: an invalid nickname is answered with an error', len(ctx.written) >= 1))
    # refused or own nick: nothing changes at all
    def allow(k):
        return k[1] in (a, new) if len(k) > 1 and k[0] in ('user', 'umode', 'away', 'invited', 'userchan', 'member', 'rank', 'wallops') else False
    obs += frame_obligations(ctx, allow, 'nick:frame')
    full = frame_obligations(ctx, lambda k: False, 'nick:refused')
    obs += [(i, d, Implies(Not(ok), t) if not isinstance(t, bool) else Or(ok, t)) for i, d, t in full]
    obs += counters_frame(ctx)
    return obs

# ------------------------------------------------------------------------------------------ teardown
@judge('quit_flag')
def j_quit_flag(ctx):
    """the terminating event marks the connection for removal"""
    if ctx.outcome != 'ok': return []
    q = ctx.quit
    return [('end:quit-flag', f'{ctx.case.get("name")}: the connection is marked as ending', (q != 0) if isinstance(q, int) else (q != 0))]

@judge('teardown')
def j_teardown(ctx):
    if ctx.outcome != 'ok': return []
    pre, post, a, w = ctx.pre, ctx.post, ctx.actor, ctx.w
    nicks = w.spec.nicks
    obs = []
    obs.append(('end:user-gone', 'teardown: the nickname is free again', Not(post.user_live(a))))
    obs.append(('end:wallops', 'teardown: the user leaves the WALLOPS audience', Not(post.wallops.get(a, False))))
    for c in sorted(set(pre.chans) | set(post.chans)):
        obs.append(('end:roster', f'teardown: the user is on no roster ({c})', Not(post.member(a, c))))
        if c in post.chans:
            for rk in RANKS:
                obs.append(('end:ranklist', f'teardown: the user is in no rank list ({rk} of {c})', Implies(post.chan_live(c), Not(post.chans[c]['ranksets'][rk].get(a, False)))))
        if c in pre.chans:
            left = Or(*[pre.member(n, c) for n in nicks if n != a])
            obs.append(('end:channel-life', f'teardown: {c} survives iff preconfigured or other members remain (or the user was not on it)',
                        Iff(post.chan_live(c), And(pre.chan_live(c), Or(pre.chans[c]['preconf'], left, Not(pre.member(a, c)))))))
            if c in post.chans:
                for f in CHFLAGS:
                    obs.append(('end:frame', f'teardown: surviving {c} keeps flag {f}', Implies(post.chan_live(c), Iff(post.chans[c]['flags'][f], pre.chans[c]['flags'][f]))))
    hl = post.histories.get(a, (False, None))[0]
    obs.append(('end:whowas', 'teardown: a WHOWAS record of the user is kept', Implies(pre.user_live(a), hl)))
    def allow(k):
        if len(k) > 1 and k[1] == a and k[0] in ('user', 'umode', 'away', 'invited', 'userchan', 'member', 'rank', 'wallops'): return True
        if k[0] in ('chan', 'preconf', 'flag', 'haskey', 'haslimit', 'hastopic', 'ban', 'exc', 'invex'): return True    # judged above (a channel may vanish)
        if k[0] in ('member', 'rank'): return True
        return False
    obs += frame_obligations(ctx, allow, 'end:frame')
    for n in nicks:
        if n == a: continue
        for c in pre.chans:
            obs.append(('end:others', f'teardown: {n} keeps its membership of {c}', Iff(post.member(n, c), pre.member(n, c))))
            for rk in RANKS:
                obs.append(('end:others', f'teardown: {n} keeps rank {rk} on {c}', Implies(pre.member(n, c), Iff(post.rank(n, c, rk), pre.rank(n, c, rk)))))
    return obs

@judge('slot_freed')
def j_slot_freed(ctx):
    if ctx.outcome != 'ok' or not getattr(ctx, 'then', None): return []
    before, after = ctx.then[-1]
    return [('end:slot', 'dropping the connection state frees exactly one connection slot', BV(after) == BV(before) - 1)]

# ------------------------------------------------------------------------------------------ reader views (NAMES / WHO / WHOIS)
def listed_names(ctx, c):
    srv = server(ctx); a = ctx.actor
    out = {}
    for l in ctx.written:
        if numeric_pred(srv, 353, a)(l) and is_concrete(l):
            pr = ref_parse(l)
            if len(pr[2]) >= 4 and pr[2][2].decode() == c:
                for tok in pr[2][3].decode().split():
                    out[tok.lstrip('~&@%+')] = tok[:len(tok) - len(tok.lstrip('~&@%+'))]
    return out

def highest_prefix(s, n, c, multi):
    order = [('founder', '~'), ('protected', '&'), ('operator', '@'), ('half_oper', '%'), ('voice', '+')]
    return order

@judge('view_names')
def j_view_names(ctx):
    r = ref_parse(ctx.line.encode())
    if r[1].upper() != b'NAMES' or ctx.outcome != 'ok' or not r[2]: return []
    pre, a, w = ctx.pre, ctx.actor, ctx.w
    obs = []
    for c in r[2][0].decode().split(','):
        if c not in pre.chans: continue
        names = listed_names(ctx, c)
        onch = pre.member(a, c)
        secret = pre.chans[c]['flags']['secret']
        for n in w.spec.nicks:
            entitled = And(pre.chan_live(c), Or(onch, And(Not(secret), Not(pre.users[n]['modes']['invisible']))))
            obs.append(('view:names', f'NAMES {c} lists {n} exactly when it is a member and the observer may see it', Iff(n in names, And(pre.member(n, c), entitled))))
            if n in names:
                pf = names[n]
                order = [('founder', '~'), ('protected', '&'), ('operator', '@'), ('half_oper', '%'), ('voice', '+')]
                for rk, ch in order:
                    # a shown prefix is a held rank
                    if ch in pf: obs.append(('view:prefix', f'NAMES {c}: prefix {ch} of {n} is a rank it holds', pre.rank(n, c, rk)))
                # which prefixes: all held ranks for an observer with the multi-prefix capability, otherwise only the highest one
                try:
                    mp = fld(ctx.prog, fld(ctx.prog, ctx.conn['cell'].v, 'caps'), 'multi_prefix')
                except Exception:
                    mp = None
                if mp is not None:
                    for i, (rk, ch) in enumerate(order):
                        higher = Or(*[pre.rank(n, c, r2) for r2, _ in order[:i]]) if i else False
                        obs.append(('view:prefix', f'NAMES {c}: {n} is shown with {ch} exactly when it holds that rank and (multi-prefix or no higher rank)',
                                    Iff(ch in pf, And(pre.rank(n, c, rk), Or(mp, Not(higher))))))
                top = None
                anyrank = Or(*[pre.rank(n, c, rk) for rk, _ in order])
                obs.append(('view:prefix', f'NAMES {c}: {n} carries a prefix exactly when it holds a rank', Iff(len(pf) > 0, anyrank)))
    obs += frame_obligations(ctx, lambda k: False, 'view:frame')
    return obs

@judge('view_who')
def j_view_who(ctx):
    r = ref_parse(ctx.line.encode())
    if r[1].upper() != b'WHO' or ctx.outcome != 'ok': return []
    pre, a, w = ctx.pre, ctx.actor, ctx.w
    c = r[2][0].decode()
    if c not in pre.chans: return []
    srv = server(ctx)
    listed = set()
    for l in ctx.written:
        if numeric_pred(srv, 352, a, c)(l) and is_concrete(l):
            pr = ref_parse(l)
            listed.add(pr[2][5].decode())
    obs = []
    for n in w.spec.nicks:
        shares = Or(*[And(pre.member(a, cc), pre.member(n, cc)) for cc in pre.chans])
        vis = Or(Not(pre.users[n]['modes']['invisible']), shares)
        # for an entitled observer (member, or non-secret channel and visible subject) the WHO view equals the roster
        ent = Or(pre.member(a, c), And(Not(pre.chans[c]['flags']['secret']), vis))
        obs.append(('view:who', f'WHO {c} lists member {n} for an entitled observer', Implies(And(pre.member(n, c), ent, vis), n in listed)))
        obs.append(('view:who', f'WHO {c} lists only members', Implies(n in listed, pre.member(n, c))))
    obs += frame_obligations(ctx, lambda k: False, 'view:frame')
    return obs

@judge('view_whois')
def j_view_whois(ctx):
    r = ref_parse(ctx.line.encode())
    if r[1].upper() != b'WHOIS' or ctx.outcome != 'ok' or len(r[2]) != 1: return []
    pre, a, w = ctx.pre, ctx.actor, ctx.w
    n = r[2][0].decode()
    if n not in pre.users: return []
    srv = server(ctx)
    chans = {}
    for l in ctx.written:
        if numeric_pred(srv, 319, a, n)(l) and is_concrete(l):
            from props.msg import ref_target
            for tok in ref_parse(l)[2][2].decode().split():
                kind, pfx, name = ref_target(tok)
                chans[name] = tok
    obs = []
    shares = Or(*[And(pre.member(a, cc), pre.member(n, cc)) for cc in pre.chans])
    vis = And(pre.user_live(n), Or(Not(pre.users[n]['modes']['invisible']), shares))
    for c in pre.chans:
        sec = pre.chans[c]['flags']['secret']
        obs.append(('view:whois', f'WHOIS {n} lists {c} when {n} is on it, it is not secret and {n} is visible', Implies(And(pre.member(n, c), Not(sec), vis), c in chans)))
        obs.append(('view:whois', f'WHOIS {n} lists only channels {n} is on', Implies(c in chans, pre.member(n, c))))
    obs += frame_obligations(ctx, lambda k: False, 'view:frame')
    return obs
