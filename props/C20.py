"""C20  Configuration is validated at start-up and governs behaviour as documented.

Reached by this technique: MainConfig::new from the point where the file has been decoded (File/toml return an arbitrary
MainConfig value of the documented shape), the CLI overrides, the TLS both-or-neither rule, the derive-generated
Validate::validate for MainConfig / OperatorConfig / UserConfig / ChannelConfig, validate_nicknames, the field validators on
symbolic bytes, MainState::new_from_config index tables and the welcome burst quoting the configuration.
Outside (cannot be encoded): argon2id itself, TOML syntax decoding (toml/serde), TLS transcripts (rustls/openssl)."""
import sys, time
import z3
from mirsym.steplib import judge, call, buf_text
from mirsym.post import And, Or, Not, Iff, Implies, L
from mirsym.values import *
from mirsym.world import mk, fld, opt_sym
from mirsym.explore import explore, Stats, model_of, check_valid
from mirsym.checklib import span_text, model_bytes, Finding
from mirsym.models.str_m import utf8_valid_constraint
from mirsym.models import model
from props.oracles import *
from props.common import run_property, pure

PROP = 'C20'
GOOD_HASH = 'kABc9xjQBSwgV2WfM02/AV8rQhEpTzRjn+fYC1x3ab0hRul9S9EkxGS/GMckLQjn0gYEEX3ISmXDfetwTUwhpQ'   # from config-example.toml (86 base64 chars = 64 bytes)

# environment of MainConfig::new: the file exists and decodes to the configuration the harness provides
@model('std::fs::File::open')
def file_open(M, ctx, path):
    return ok(Opaque('File'))

@model('std::io::Read::read_to_string')
def read_to_string(M, ctx, f, buf):
    return ok(0)

@model('toml::from_str', 'toml::de::from_str')
def toml_from_str(M, ctx, s):
    cfg = M.env.get('toml_config')
    if cfg is None: raise EncoderGap('toml::from_str without a harness configuration')
    return ok(cfg)

@model('clap::Error::raw', 'clap::error::Error::raw')
def clap_error_raw(M, ctx, kind, msg):
    return Opaque('clap error')

def base_config(prog, **over):
    S = lambda st, **f: mk(prog, st, **f)
    f = dict(name=mkstring('irc.example'), admin_info=mkstring('a'), admin_info2=NONE(), admin_email=NONE(), info=mkstring('i'), motd=mkstring('m'), listen=Opaque('ip', b'127.0.0.1'),
             port=6667, network=mkstring('net'), password=NONE(), max_connections=NONE(), max_joins=NONE(), ping_timeout=120, pong_timeout=20, dns_lookup=False,
             default_user_modes=S('UserModes', invisible=False, oper=False, local_oper=False, registered=False, wallops=False), log_file=NONE(), log_level=Opaque('Level'), tls=NONE(),
             operators=NONE(), users=NONE(), channels=NONE())
    f.update(over)
    return S('MainConfig', **f)

def sym_string(M, name, n, printable=True):
    bs = [z3.BitVec(f'{name}{i}', 8) for i in range(n)]
    M.assume(utf8_valid_constraint(bs))
    for b in bs:
        if printable: M.assume(z3.And(z3.UGE(b, 32), z3.ULT(b, 127)))
    return bs

def contains(bs, c):
    return Or(*[(b == c) for b in bs])

def ref_username(bs):
    first = Or(bs[0] == 35, bs[0] == 38) if bs else False
    return And(Not(first), Not(contains(bs, 46)), Not(contains(bs, 58)), Not(contains(bs, 44)))

def ref_channel(bs):
    if not bs: return False
    return And(Or(bs[0] == 35, bs[0] == 38), Not(contains(bs, 58)), Not(contains(bs, 44)))

@pure('validate')
def p_validate(prog, case, budget):
    """MainConfig::new -> Ok exactly when every documented rule holds for the (overridden) configuration; overrides win"""
    st = Stats(); findings = []; samples = []; nontriv = [0]
    kind = case['kind']; n = case.get('n', 3)
    new_fn = prog.resolve_crate_fn('config::MainConfig::new')
    S = lambda s_, **f: mk(prog, s_, **f)
    def run(M):
        rule = True; expect = {}; parts = {}
        cli = dict(gen_password_hash=False, password=NONE(), config=NONE(), listen=NONE(), port=NONE(), name=NONE(), network=NONE(), dns_lookup=False,
                   tls_cert_file=NONE(), tls_cert_key_file=NONE(), log_file=NONE())
        cfgk = {}
        if kind == 'server-name':
            bs = sym_string(M, 'n', n); cfgk['name'] = StringV(bs); rule = contains(bs, 46); parts['name'] = bs
        elif kind == 'cli-name-override':
            bs = sym_string(M, 'n', n); has = z3.Bool('cli_has_name'); parts['cli_name'] = bs
            cli['name'] = opt_sym(has, StringV(bs)); cfgk['name'] = mkstring('file.name')
            rule = Or(Not(has), contains(bs, 46)); expect['name'] = (has, bs, list(b'file.name'))
        elif kind == 'cli-other-overrides':
            hp, hn, hl, hd = z3.Bool('cli_has_port'), z3.Bool('cli_has_network'), z3.Bool('cli_has_log'), z3.Bool('cli_dns')
            port = z3.BitVec('cli_port', 16); fd = z3.Bool('file_dns')
            cli['port'] = opt_sym(hp, port); cli['network'] = opt_sym(hn, mkstring('clinet')); cli['log_file'] = opt_sym(hl, mkstring('cli.log')); cli['dns_lookup'] = hd
            cfgk['dns_lookup'] = fd
            expect['other'] = (hp, port, hn, hl, hd, fd)
        elif kind == 'tls':
            hc, hk = z3.Bool('cli_cert'), z3.Bool('cli_key')
            cli['tls_cert_file'] = opt_sym(hc, mkstring('c.crt')); cli['tls_cert_key_file'] = opt_sym(hk, mkstring('k.key'))
            rule = (hc == hk); expect['tls'] = (hc, hk)
        elif kind == 'server-password':
            hb = sym_hash(M, case.get('hlen', 86)); cfgk['password'] = some(StringV(hb)); rule = ref_hash(hb); parts['hash'] = hb
        elif kind == 'operator':
            nb = sym_string(M, 'o', n); hb = sym_hash(M, case.get('hlen', 86))
            cfgk['operators'] = some(VecV([S('OperatorConfig', name=StringV(nb), password=StringV(hb), mask=NONE())]))
            rule = And(ref_username(nb), ref_hash(hb)); parts['oper_name'] = nb; parts['hash'] = hb
        elif kind == 'user':
            nb = sym_string(M, 'u', n); kb = sym_string(M, 'k', n); hasp = z3.Bool('user_has_password'); hb = sym_hash(M, case.get('hlen', 86))
            cfgk['users'] = some(VecV([S('UserConfig', name=StringV(nb), nick=StringV(kb), password=opt_sym(hasp, StringV(hb)), mask=NONE())]))
            rule = And(ref_username(nb), ref_username(kb), Or(Not(hasp), And(ref_hash(hb), len(hb) >= 6))); parts['user_name'] = nb; parts['user_nick'] = kb; parts['hash'] = hb
        elif kind == 'channel':
            cb = sym_string(M, 'c', n)
            modes = M.run_fn(prog.impl_index[('ChannelModes', 'Default', 'default')][0], [])
            cfgk['channels'] = some(VecV([S('ChannelConfig', name=StringV(cb), topic=NONE(), modes=modes)]))
            rule = ref_channel(cb); parts['chan'] = cb
        elif kind == 'long-nick':
            ln = case['nicklen']
            cfgk['users'] = some(VecV([S('UserConfig', name=mkstring('u'), nick=mkstring('n' * ln), password=NONE(), mask=NONE())]))
            rule = ln <= 200
        M.env['toml_config'] = base_config(prog, **cfgk)
        r = M.run_fn(new_fn, [S('Cli', **cli)])
        return r, rule, expect, parts
    def on(r):
        M = r.M
        if r.kind == 'panic':
            md = model_of(M)
            findings.append(dict(kind='panic', site='MainConfig::new: ' + span_text(prog, r.value.site), what=r.value.msg, predicate='config-panic',
                                 witness=dict(case=case['name'], profile=prog.profile, model=str(md)[:600])))
            return
        if r.kind != 'ok': return
        nontriv[0] += 1
        res, rule, expect, parts = r.value
        isok = res.variant == 0
        v, md = check_valid(M, Iff(isok, rule), st)
        if not v and md is not None:
            findings.append(dict(kind='mismatch', site='MainConfig::new acceptance', what=f'{case["name"]}: configuration {"accepted" if isok else "refused"} against the documented rule',
                                 predicate=kind, witness=dict(case=case['name'], kind=kind, nicklen=case.get('nicklen'), profile=prog.profile, model=str(md)[:800], accepted_by_model=isok,
                                                              rule=(bool(rule) if isinstance(rule, bool) else z3.is_true(md.eval(rule, True))),
                                                              parts={k: bytes(md.eval(b, True).as_long() for b in v).decode('latin-1') for k, v in parts.items()},
                                                              bools={d.name(): z3.is_true(md[d]) for d in md.decls() if z3.is_bool(md[d])})))
        if isok:
            cfg = res.fields[0]
            g = lambda n_: fld(prog, cfg, n_)
            obs = []
            if 'name' in expect:
                has, bs, filename = expect['name']
                obs.append(('override:name', M.values_equal(g('name'), Str(bs)) if M.branch(has) else M.values_equal(g('name'), Str(filename))))
            if 'other' in expect:
                hp, port, hn, hl, hd, fd = expect['other']
                obs.append(('override:port', (g('port') == port) if M.branch(hp) else (g('port') == 6667)))
                obs.append(('override:network', M.values_equal(g('network'), mkstr('clinet')) if M.branch(hn) else M.values_equal(g('network'), mkstr('net'))))
                lf = g('log_file')
                obs.append(('override:log_file', (lf.variant == 1 and M.values_equal(lf.fields[0], mkstr('cli.log'))) if M.branch(hl) else (lf.variant == 0)))
                obs.append(('override:dns_lookup', Iff(g('dns_lookup'), Or(hd, fd))))
            if 'tls' in expect:
                hc, hk = expect['tls']
                t = g('tls')
                both = M.branch(And(hc, hk))
                obs.append(('override:tls', (t.variant == 1) if both else (t.variant == 0)))
            for oid, term in obs:
                v, md = check_valid(M, term, st)
                if not v and md is not None:
                    findings.append(dict(kind='mismatch', site=oid, what=f'{case["name"]}: the command-line option does not win over the file', predicate=oid,
                                         witness=dict(case=case['name'], profile=prog.profile, model=str(md)[:600])))
    explore(prog, run, on, stats=st, prefix=case.get('prefix'), timeout_ms=budget['solver_ms'], max_steps=budget['steps'], max_paths=budget['paths'],
            deadline=(time.time() + budget['case_s']) if budget.get('case_s') else None)
    return dict(stats=st, findings=findings, samples=samples, nontrivial=nontriv[0], case=case['name'])

def sym_hash(M, n):
    bs = [z3.BitVec(f'h{i}', 8) for i in range(n)]
    for b in bs: M.assume(z3.And(z3.UGE(b, 32), z3.ULT(b, 127)))          # printable, blanks included (a hash pasted with surrounding blanks is not a hash)
    return bs

def ref_hash(bs):
    """standard base64 without padding, canonical, decoding to exactly 64 bytes"""
    n = len(bs)
    if n != 86: return False
    def isb64(b): return z3.Or(z3.And(z3.UGE(b, 65), z3.ULE(b, 90)), z3.And(z3.UGE(b, 97), z3.ULE(b, 122)), z3.And(z3.UGE(b, 48), z3.ULE(b, 57)), b == 43, b == 47)
    last = bs[-1]
    sx = z3.If(z3.ULE(last, 43), z3.BitVecVal(62, 8), z3.If(z3.ULE(last, 47), z3.BitVecVal(63, 8), z3.If(z3.ULE(last, 57), last + 4, z3.If(z3.ULE(last, 90), last - 65, last - 71))))
    return z3.And([isb64(b) for b in bs] + [(sx & 0x0f) == 0])

# ------------------------------------------------------------------------------------------ the configuration governs the welcome burst
@judge('burst')
def j_burst(ctx):
    if ctx.outcome != 'ok': return []
    srv = server(ctx)
    w = ctx.written
    txt = [bytes(x for x in l if isinstance(x, int)).decode('utf-8', 'replace') for l in w]
    obs = []
    sp = ctx.w.spec
    obs.append(('burst:001', 'the welcome names the configured network', any(' 001 ' in t and 'IRCnetwork' in t for t in txt)))
    obs.append(('burst:002', 'the host line names the configured server', any(' 002 ' in t and srv in t for t in txt)))
    obs.append(('burst:372', 'the MOTD is the configured text', any(' 372 ' in t and 'Hello, world!' in t for t in txt)))
    obs.append(('burst:prefix', 'every line is sent under the configured server name', all(t.startswith(':' + srv + ' ') for t in txt)))
    has_mj = ctx.w.max_joins_some
    tok = [l for l in w if b'CHANLIMIT=&#:' in bytes(x for x in l if isinstance(x, int))]
    obs.append(('burst:005', 'ISUPPORT advertises CHANLIMIT exactly when max_joins is configured', Iff(len(tok) == 1, has_mj)))
    return obs

def make_cases(tier, profile):
    cases = []
    N = 3 if tier == 'quick' else 5
    for n in range(0, N + 1):
        cases.append(dict(name=f'server name of {n} bytes', pure='validate', kind='server-name', n=n))
        cases.append(dict(name=f'-n option of {n} bytes', pure='validate', kind='cli-name-override', n=n))
        cases.append(dict(name=f'operator name of {n} bytes', pure='validate', kind='operator', n=n))
        cases.append(dict(name=f'user name/nick of {n} bytes', pure='validate', kind='user', n=min(n, 3)))
        cases.append(dict(name=f'channel name of {n} bytes', pure='validate', kind='channel', n=n))
    cases.append(dict(name='port/network/log/dns options', pure='validate', kind='cli-other-overrides'))
    cases.append(dict(name='TLS certificate and key options', pure='validate', kind='tls'))
    for hl in (0, 5, 85, 86, 87, 88):
        cases.append(dict(name=f'server password hash of {hl} characters', pure='validate', kind='server-password', hlen=hl))
    for ln in (0, 200, 201):
        cases.append(dict(name=f'configured nick of {ln} bytes', pure='validate', kind='long-nick', nicklen=ln))
    spec = dict(sym_caps=False, sym_max_joins=True, sym_topic=False, sym_key=False, sym_limit=False, sym_lists=False, sym_flags=False, sym_ranks=False, sym_invites=False, sym_away=False,
                sym_modes=False, plain_chans=['#x', '&y'], nicks=['alice', 'bob', 'carol'])
    cases.append(dict(name='welcome burst', line='USER dave 0 * :Real', judges=['no_panic', 'burst'], spec=spec, conn=dict(registered=False, nick='dave')))
    return cases

BOUNDS = dict(validation='server name, -n option, operator / user / nick / channel names fully symbolic up to 3 (5) printable bytes; password hashes fully symbolic at lengths 0, 5, 85, 86, 87, 88; nick lengths 0, 200, 201; all CLI options present/absent symbolically',
              outside='argon2id (that a -g hash accepts exactly its password): not bit-blastable, left to the repository\'s two argon2 unit tests; TOML syntax -> struct (toml/serde); TLS-on == TLS-off transcripts (rustls/openssl); "each setting governs behaviour" for max_joins, default modes, predefined users/operators/channels is discharged by C03/C07/C11/C16 whose worlds range over those settings')

def native_accepts(run, w):
    """start the real binary on a generated configuration file: -> True (serves), False (refuses to start), None (cannot tell)"""
    import subprocess, os, socket, time as _t
    from mirsym import ircreplay as R
    exe = run.snap.build_server(False)
    port = R.free_port()
    P = w.get('parts', {}); B = w.get('bools', {}); kind = w.get('kind')
    name = P.get('name', 'file.name') if kind == 'server-name' else ('file.name' if kind == 'cli-name-override' else 'irc.example')
    lines = [f'name = {R.toml_str(name)}', 'admin_info = "a"', 'info = "i"', 'listen = "127.0.0.1"', f'port = {port}', 'network = "net"', 'motd = "m"',
             'ping_timeout = 120', 'pong_timeout = 20', 'dns_lookup = false', 'log_level = "INFO"']
    if kind == 'server-password': lines.append(f'password = {R.toml_str(P["hash"])}')
    lines += ['[default_user_modes]'] + [f'{m} = false' for m in ('invisible', 'oper', 'local_oper', 'registered', 'wallops')]
    if kind == 'operator':
        lines += ['[[operators]]', f'name = {R.toml_str(P["oper_name"])}', f'password = {R.toml_str(P["hash"])}']
    if kind == 'user':
        lines += ['[[users]]', f'name = {R.toml_str(P["user_name"])}', f'nick = {R.toml_str(P["user_nick"])}']
        if B.get('user_has_password'): lines.append(f'password = {R.toml_str(P["hash"])}')
    if kind == 'long-nick':
        lines += ['[[users]]', 'name = "u"', f'nick = "{"n" * w["nicklen"]}"']
    if kind == 'channel':
        lines += ['[[channels]]', f'name = {R.toml_str(P["chan"])}', '[channels.modes]', 'moderated = false', 'invite_only = false', 'secret = false', 'protected_topic = false', 'no_external_messages = false']
    cfg = os.path.join(run.snap.dir, f'c20_{port}.toml')
    open(cfg, 'w', encoding='latin-1').write('\n'.join(lines) + '\n')
    args = [exe, '-c', cfg]
    if kind == 'cli-name-override' and B.get('cli_has_name'): args.append('--name=' + P['cli_name'])
    if kind == 'tls':
        if B.get('cli_cert') and B.get('cli_key'): return None, 'both TLS files given: start-up depends on the files'
        if B.get('cli_cert'): args.append('--tls-cert-file=c.crt')
        if B.get('cli_key'): args.append('--tls-cert-key-file=k.key')
    if kind == 'cli-other-overrides': return None, 'no acceptance rule'
    p = subprocess.Popen(args, stdout=subprocess.PIPE, stderr=subprocess.STDOUT, env=dict(os.environ, RUST_LOG='error', RUST_BACKTRACE='0'))
    t0 = _t.time(); verdict = None
    try:
        while _t.time() - t0 < 8:
            if p.poll() is not None:
                verdict = False; break
            try:
                c = socket.create_connection(('127.0.0.1', port), timeout=0.3); c.close(); verdict = True; break
            except OSError:
                _t.sleep(0.05)
    finally:
        out = b''
        if p.poll() is None: p.kill()
        try: out = p.communicate(timeout=5)[0] or b''
        except Exception: pass
    return verdict, ' '.join(args[1:])[-200:] + ' -> ' + ('serves' if verdict else 'refuses: ' + out.decode('utf-8', 'replace')[-160:] if verdict is False else 'unknown')

def native_replay(run, rp):
    w = rp['witness']
    got, text = native_accepts(run, w)
    if got is None: return None, text
    return (got != w['rule']), text

def confirm(run, cands):
    for f in cands:
        fi = Finding(PROP, f['kind'], f['site'], f['what'], f['witness'], role=dict(predicate=f.get('predicate', '')))
        w = f['witness']
        if f['site'] == 'MainConfig::new acceptance' and 'rule' in w:
            try:
                got, text = native_accepts(run, w)
            except Exception as e:
                got, text = None, 'native start failed: ' + repr(e)[:300]
            if got is None: fi.confirmed = None
            else:
                fi.confirmed = (got != w['rule']) and (got == w['accepted_by_model'])
                if fi.confirmed: run.native_replays += 1
            fi.native = text
            fi.replay = dict(kind='config', witness=w)
        else:
            fi.confirmed = None; fi.native = 'no native replay for this configuration finding'
        run.add_finding(fi)

if __name__ == '__main__':
    run_property(PROP, sys.argv[1], int(sys.argv[2]), make_cases, BOUNDS,
                 ['File::open / read_to_string succeed and toml::from_str returns an arbitrary MainConfig of the documented shape (environment model)'], confirm=confirm)
