"""C07  JOIN admits exactly those whom key, bans, invitation, limit and quota allow."""
import sys
import z3
from mirsym.steplib import judge
from mirsym.post import And, Or, Not, Iff, Implies, opt_cond, BV, bv_sum
from mirsym.values import *
from props.oracles import *
from props.common import run_property
from props.C14 import py_glob

PROP = 'C07'

def any_match(masks_live, source):
    """some live mask of the set matches the source (masks are concrete menu strings; matching by the reference glob)"""
    return Or(*[l for m, l in masks_live.items() if py_glob(m, source)])

@judge('join')
def j_join(ctx):
    r = ref_parse(ctx.line.encode())
    if r[1].upper() != b'JOIN' or ctx.outcome != 'ok': return []
    ps = [p.decode() for p in r[2]]
    chans = ps[0].split(',')
    keys = ps[1].split(',') if len(ps) > 1 else None
    if len(set(chans)) != len(chans): return []          # repeated names in one JOIN are outside this oracle
    pre, post, a, M, w = ctx.pre, ctx.post, ctx.actor, ctx.M, ctx.w
    nicks = w.spec.nicks
    src = src_of(ctx, a)
    srv = server(ctx)
    joined_before = bv_sum([pre.user_in(a, c) for c in pre.users[a]['channels']])
    has_mj, mj = w.max_joins_some, w.max_joins
    obs = []
    count = joined_before
    admit = {}
    newch = {}
    for i, c in enumerate(chans):
        exists = pre.chan_live(c)
        quota_ok = Or(Not(has_mj), z3.ULT(BV(count), BV(mj)))
        if c in pre.chans:
            ch = pre.chans[c]
            haskey = opt_cond(ch['key'])
            kv = w.spec.keys.get(c)
            key_ok = Or(Not(haskey), bool(keys is not None and keys[i] == kv))
            banned = And(any_match(ch['ban'], src), Not(any_match(ch['exception'], src)))
            inv_ok = Or(Not(ch['flags']['invite_only']), pre.users[a]['invited'].get(c, False), any_match(ch['invex'], src))
            nmem = bv_sum([m['live'] for m in ch['members'].values()])
            haslim = opt_cond(ch['limit'])
            lim = ch['limit'].fields[0] if ch['limit'].fields else 0
            room = Or(Not(haslim), z3.ULT(nmem, BV(lim)))
            is_member = pre.member(a, c)
            ok_existing = And(exists, key_ok, Not(banned), inv_ok, room, Not(is_member), quota_ok)
        else:
            haskey = banned = is_member = False; key_ok = inv_ok = room = True
            ok_existing = False
        ok_new = And(Not(exists), quota_ok)
        adm = Or(ok_existing, ok_new)
        admit[c] = adm; newch[c] = ok_new
        # membership
        obs.append(('join:admission', f'JOIN {c}: the joiner is a member afterwards exactly when admitted (or already one)',
                    Iff(post.member(a, c), Or(is_member, adm))))
        obs.append(('join:userside', f'JOIN {c}: the user record lists the channel exactly when a member', Iff(post.user_in(a, c), post.member(a, c))))
        if c in pre.users[a]['invited'] or c in post.users[a]['invited']:
            obs.append(('join:invitation', f'JOIN {c}: an accepted JOIN uses up the invitation, a refused one keeps it',
                        Iff(post.users[a]['invited'].get(c, False), And(pre.users[a]['invited'].get(c, False), Not(adm)))))
        obs.append(('join:channel', f'JOIN {c}: the channel exists afterwards iff it existed or was created', Iff(post.chan_live(c), Or(exists, ok_new))))
        # a created channel is unrestricted and founded by the joiner
        if c in post.chans:
            pc = post.chans[c]
            fresh = And(ok_new)
            for f in CHFLAGS: obs.append(('join:create', f'JOIN {c}: a created channel has no {f}', Implies(fresh, Not(pc['flags'][f]))))
            obs.append(('join:create', f'JOIN {c}: a created channel has no key/limit/topic', Implies(fresh, And(Not(opt_cond(pc['key'])), Not(opt_cond(pc['limit'])), Not(opt_cond(pc['topic']))))))
            obs.append(('join:create', f'JOIN {c}: a created channel has empty lists', Implies(fresh, Not(Or(*(list(pc['ban'].values()) + list(pc['exception'].values()) + list(pc['invex'].values())))))))
            obs.append(('join:create', f'JOIN {c}: the creator is founder and operator', Implies(fresh, And(post.rank(a, c, 'founder'), post.rank(a, c, 'operator')))))
            obs.append(('join:create', f'JOIN {c}: a created channel is not preconfigured', Implies(fresh, Not(pc['preconf']))))
        # errors
        exp_err = [('475', And(exists, Not(key_ok)), numeric_pred(srv, 475, a, c)),
                   ('474', And(exists, banned), numeric_pred(srv, 474, a, c)),
                   ('473', And(exists, Not(inv_ok)), numeric_pred(srv, 473, a, c)),
                   ('471', And(exists, Not(room)), numeric_pred(srv, 471, a, c)),
                   ('405', Not(quota_ok), numeric_pred(srv, 405, a, c))]
        sent = {}
        for code, cond, pred in exp_err:
            k = len([l for l in ctx.written if pred(l)])
            sent[code] = k
            obs.append(('join:error', f'JOIN {c}: {code} only when its condition holds', Implies(k >= 1, cond)))
            obs.append(('join:error', f'JOIN {c}: at most one {code}', k <= 1))
        refused_nonmember = And(Not(adm), Not(is_member))
        obs.append(('join:error', f'JOIN {c}: a refused JOIN is answered with a matching error', Implies(refused_nonmember, sum(sent.values()) >= 1)))
        # the channel's own rules are tested in the order key, ban, invitation, limit and the first that refuses answers (the quota error may accompany it)
        obs.append(('join:error', f'JOIN {c}: at most one of 475 / 474 / 473 / 471 is sent', sent['475'] + sent['474'] + sent['473'] + sent['471'] <= 1))
        obs.append(('join:error', f'JOIN {c}: an accepted JOIN gets no error', Implies(adm, sum(sent.values()) == 0)))
        # announcements
        jp = relay_pred(src, 'JOIN', [c])
        for n in nicks:
            if n == a: continue
            q = [l for l in ctx.queues.get(n, []) if jp(l)]
            obs.append(('join:announce', f'JOIN {c}: announced to member {n} exactly when accepted', Iff(len(q) == 1, And(adm, pre.member(n, c)))))
            obs.append(('join:announce', f'JOIN {c}: no duplicate announcement to {n}', len(q) <= 1))
        echo = [l for l in ctx.written if jp(l)]
        obs.append(('join:echo', f'JOIN {c}: echoed to the joiner exactly when accepted', Iff(len(echo) == 1, adm)))
        e366 = [l for l in ctx.written if numeric_pred(srv, 366, a, c)(l)]
        obs.append(('join:names', f'JOIN {c}: NAMES end (366) exactly when accepted', Iff(len(e366) == 1, adm)))
        names = set()
        for l in ctx.written:
            if numeric_pred(srv, 353, a)(l) and is_concrete(l):
                pr = ref_parse(l)
                if len(pr[2]) >= 4 and pr[2][2].decode() == c:
                    for tok in pr[2][3].decode().split():
                        names.add(tok.lstrip('~&@%+'))
        for n in nicks:
            obs.append(('join:names', f'JOIN {c}: the NAMES reply lists {n} exactly when it is a member after an accepted JOIN',
                        Iff(n in names, And(adm, post.member(n, c)))))
        if c in pre.chans:
            t332 = [l for l in ctx.written if numeric_pred(srv, 332, a, c)(l)]
            obs.append(('join:topic', f'JOIN {c}: topic reply exactly when accepted and a topic is set', Iff(len(t332) == 1, And(adm, exists, opt_cond(pre.chans[c]['topic'])))))
        count = BV(count) + z3.If(L(adm), z3.BitVecVal(1, 64), z3.BitVecVal(0, 64))
    # nothing else is delivered or changed
    for n in nicks:
        if n == a: continue
        extra = [l for l in ctx.queues.get(n, []) if not any(relay_pred(src, 'JOIN', [c])(l) for c in chans)]
        if extra: obs.append(('join:unexpected', f'JOIN: unexpected line to {n}: {buf_text(extra[0])!r}', False))
    touched = set(chans)
    def allow(k):
        if k[0] in ('member', 'userchan', 'invited') and k[1] == a and k[2] in touched: return True
        if k[0] == 'rank' and k[1] == a and k[2] in touched: return True
        if k[0] in ('chan', 'preconf', 'flag', 'haskey', 'haslimit', 'hastopic', 'ban', 'exc', 'invex') and k[1] in touched and k[1] not in pre.chans: return True
        if k[0] == 'chan' and k[1] in touched: return True
        return False
    obs += frame_obligations(ctx, allow, 'join:frame')
    # attributes of an existing channel are untouched
    for c in chans:
        if c in pre.chans and c in post.chans:
            for f in CHFLAGS:
                obs.append(('join:frame', f'JOIN {c}: flag {f} unchanged', Implies(pre.chan_live(c), Iff(post.chans[c]['flags'][f], pre.chans[c]['flags'][f]))))
    obs += counters_frame(ctx)
    return obs

def make_cases(tier, profile):
    J = ['no_panic', 'inv', 'join']
    lines = ['JOIN #x', 'JOIN #x K1', 'JOIN #x bad', 'JOIN #new', 'JOIN #x,&y', 'JOIN #x,&y K1,bad', 'JOIN #new,#x', 'JOIN #x,#x', 'JOIN #new,#new']
    if tier != 'quick':
        lines += ['JOIN &y,#x bad,K1', 'JOIN #x,#new,&y', 'JOIN #x,#new,&y K1,zz,K1', 'JOIN #n1,#n2,#n3', 'JOIN &y K1']
    cases = []
    for l in lines:
        nch = len(l.split(' ')[1].split(','))
        split = []
        plain = []
        if nch >= 2:
            split = ['exists_#x', 'mem_alice_#x', 'mem_bob_#x', 'mem_carol_#x']
            plain = ['&y']        # (a fully symbolic second channel did not finish within 25 minutes: both tiers keep it plain)
        elif '#x' in l: split = ['mem_bob_#x', 'mem_carol_#x']
        cases.append(dict(name=l, line=l, judges=J, split=split,
                          spec=dict(plain_chans=plain, sym_modes=False, sym_away=False, sym_ranks=False, sym_caps=False, sym_topic=True,
                                    nicks=['alice', 'bob', 'carol'],
                                    masks=['a*!*@*', 'bob!*@*'] if tier == 'quick' else ['a*!*@*', 'bob!*@*', '*!~ualice@*'])))
    return cases

BOUNDS = dict(universe='3 users (4 thorough), channels #x and &y (+ names that do not exist), memberships, i/m/s/t/n flags, key presence, '
                       '64-bit limit, 64-bit max_joins, ban/exception/invite-exception lists over a 2 (3) mask menu, invitations, topic presence all symbolic',
              commands='JOIN with 1-3 channels, with/without/with wrong keys, existing and new names',
              two_channel_joins='quick tier: the second channel (&y) has concrete default attributes (only its existence, key and the joiner\'s membership are symbolic); both tiers (a fully symbolic second channel did not finish within 25 minutes); formerly thorough: both fully symbolic', outside='a name repeated inside one JOIN (only crash-freedom and Inv are checked for it); ranks held fixed here (C08/C16 cover them)')

if __name__ == '__main__':
    run_property(PROP, sys.argv[1], int(sys.argv[2]), make_cases, BOUNDS,
                 ['admission rule, errors and announcements as stated in C07; behaviour for a JOIN to a channel the user is already on is left open'])
