"""C19  Reported statistics and presence are true; connection slots do not leak."""
import sys
from props.common import run_property
import props.oper, props.life, props.reg  # noqa

PROP = 'C19'

def make_cases(tier, profile):
    cases = []
    base = dict(sym_caps=False, sym_max_joins=False, sym_topic=False, sym_key=False, sym_limit=False, sym_lists=False, sym_flags=False, sym_ranks=False,
                sym_invites=False, sym_users=True, sym_counters=True, plain_chans=['&y'], nicks=['alice', 'bob', 'carol'])
    ops = [('opname', 'goodpw', None)]
    cases.append(dict(name='LUSERS', line='LUSERS', judges=['no_panic', 'lusers'], spec=base))
    cases.append(dict(name='LUSERS [default modes +O]', line='LUSERS', judges=['no_panic', 'lusers'], spec=dict(base, default_user_modes={'local_oper': True})))
    for l in ['ISON bob', 'ISON bob carol dave alice', 'ISON :bob carol', 'USERHOST bob', 'USERHOST bob dave alice carol']:
        cases.append(dict(name=l, line=l, judges=['no_panic', 'ison'], spec=base))
    for l in ['USERHOST bob', 'USERHOST alice bob carol']:
        cases.append(dict(name=l + ' [default modes +O, operators configured]', line=l, judges=['no_panic', 'ison'], spec=dict(base, operators=ops, default_user_modes={'local_oper': True})))
        cases.append(dict(name=l + ' [operators configured]', line=l, judges=['no_panic', 'ison'], spec=dict(base, operators=ops)))
    # every mutator of the counters keeps them true (64-bit symbolic counters: overflow/underflow is a panic in the dev profile, a wrong number in release)
    for l in ['MODE alice +i', 'MODE alice -i', 'MODE alice +i-i+i', 'MODE alice +o', 'MODE alice -o', 'MODE alice +O', 'MODE alice -O', 'MODE alice -oO', 'MODE alice +w-i',
              'OPER opname goodpw', 'OPER opname badpw', 'NICK zed', 'JOIN #new', 'PART #x', 'KICK #x bob']:
        cases.append(dict(name=l + ' (counters)', line=l, judges=['no_panic', 'inv'], spec=dict(base, operators=ops)))
        cases.append(dict(name=l + ' (counters, default +O)', line=l, judges=['no_panic', 'inv'], spec=dict(base, operators=ops, default_user_modes={'local_oper': True})))
    cases.append(dict(name='OPER twice (counters)', prelude=[('alice', 'OPER opname goodpw')], line='OPER opname goodpw', judges=['no_panic', 'inv'], spec=dict(base, operators=ops)))
    cases.append(dict(name='OPER then -o then teardown (counters)', prelude=[('alice', 'OPER opname goodpw'), ('alice', 'MODE alice -o')], line='QUIT', then=['remove_user'],
                      judges=['no_panic', 'inv', 'teardown'], spec=dict(base, operators=ops)))
    cases.append(dict(name='QUIT + teardown (counters)', line='QUIT', then=['remove_user'], judges=['no_panic', 'inv'], spec=base))
    # ... of a user holding any combination of +i, +o, +O (operators configured, resp. +O by default modes)
    cases.append(dict(name='QUIT + teardown (counters, operators configured)', line='QUIT', then=['remove_user'], judges=['no_panic', 'inv'], spec=dict(base, operators=ops)))
    cases.append(dict(name='QUIT + teardown (counters, default +O)', line='QUIT', then=['remove_user'], judges=['no_panic', 'inv'], spec=dict(base, operators=ops, default_user_modes={'local_oper': True})))
    cases.append(dict(name='LUSERS after OPER', prelude=[('alice', 'OPER opname goodpw')], line='LUSERS', judges=['no_panic', 'lusers'], spec=dict(base, operators=ops)))
    cases.append(dict(name='LUSERS after MODE +i', prelude=[('alice', 'MODE alice +i')], line='LUSERS', judges=['no_panic', 'lusers'], spec=base))
    # registration itself moves the counters (default modes +i / +O / +o count at once)
    for dm in ({}, {'invisible': True}, {'local_oper': True}, {'invisible': True, 'wallops': True}):
        cases.append(dict(name=f'USER completes registration (counters, default modes {sorted(dm)})', line='USER dave 0 * :Real', judges=['no_panic', 'inv'],
                          spec=dict(base, default_user_modes=dm), conn=dict(registered=False, nick='dave')))
    # presence stays true when somebody else's registration onto a taken nick is refused and that connection then ends
    for l in ['USER dave 0 * :Real', 'CAP END']:
        cases.append(dict(name=f'{l}: refused registration on a taken nick, then teardown (presence)', line=l, judges=['no_panic', 'inv', 'ownership'], spec=base,
                          conn=dict(registered=False, nick='bob', **({'name': 'dave'} if l == 'CAP END' else {})), then=['remove_user']))
    if tier != 'quick':
        # every pair of counter mutators in sequence; four users; LUSERS / ISON after each mutator
        muts = ['MODE alice +i', 'MODE alice -i', 'MODE alice -o', 'MODE alice -O', 'MODE alice +o', 'OPER opname goodpw', 'NICK zed', 'MODE alice +iw', 'AWAY :gone', 'JOIN #new']
        big = dict(base, operators=ops, nicks=['alice', 'bob', 'carol', 'erin'])
        for dmn, dm in (('', {}), (' (default +O)', {'local_oper': True})):
            for m1 in muts:
                for m2 in muts + ['LUSERS', 'QUIT']:
                    actor2 = 'zed' if m1 == 'NICK zed' else 'alice'
                    l2 = m2.replace('alice', actor2)
                    kw = dict(then=['remove_user']) if m2 == 'QUIT' else {}
                    cases.append(dict(name=f'{m1}; {l2}{dmn}', prelude=[('alice', m1)], line=l2, actor='alice', judges=['no_panic', 'inv'] + (['lusers'] if m2 == 'LUSERS' else []),
                                      spec=dict(big, default_user_modes=dm), **kw))
        for l in ['ISON bob erin zed', 'USERHOST erin bob', 'ISON ' + ' '.join(['bob', 'erin'] * 8)]:
            cases.append(dict(name=l + ' [four users]', line=l, judges=['no_panic', 'ison'], spec=big))
    # connection slots
    cases.append(dict(name='register_conn_state', line='', call='register_conn', judges=['no_panic', 'conn_slots'], spec=base))
    cases.append(dict(name='Drop for ConnState', line='QUIT', then=['remove_user', 'drop_conn'], judges=['no_panic', 'slot_freed'], spec=base))
    return cases

BOUNDS = dict(universe='3 users whose registration and all modes are symbolic, 64-bit symbolic counters constrained by Inv (I6), 2 channels',
              commands='LUSERS, ISON, USERHOST (known, unknown, repeated nicks), MODE +-iwoO, OPER (also repeated), NICK, JOIN, PART, KICK, QUIT+teardown as counter-preserving steps; a registration onto a taken nick refused by USER / CAP END followed by the teardown of that connection (presence of the registered user kept); register_conn_state / Drop with symbolic 64-bit count and limit',
              outside='the first number of 251 may be all users or visible users; registration (add_user) is judged by C03; more than 20 nicknames per ISON/USERHOST')

if __name__ == '__main__':
    run_property(PROP, sys.argv[1], int(sys.argv[2]), make_cases, BOUNDS, ['Inv clause I6 (counters are true) assumed before and proved after every step'])
