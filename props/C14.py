"""C14  Mask matching is exact glob semantics and always terminates with an answer.

Decided by symbolic execution of the crate's own MIR of utils::match_wildcard / starts_single_wilcards /
normalize_sourcemask (and ChannelModes::banned as a caller) on symbolic byte strings; every path's result is
compared by the solver with a reference glob matcher given as a z3 term over the same bytes.
"""
import sys, time
import z3
from mirsym.checklib import CheckRun, Finding, model_bytes
from mirsym.explore import explore, check_valid, run_cases, Stats
from mirsym.values import *
from mirsym.models.str_m import utf8_valid_constraint
from mirsym.models.fmt_m import text_of

PROP = 'C14'

# ------------------------------------------------------------------------------------------ reference semantics
def B(x): return x if is_sym(x) else z3.BitVecVal(x, 8)

def ref_glob(p, t):
    """z3 Bool: the whole text t matches pattern p; '*' any run, '?' exactly one character (UTF-8), else literal byte"""
    m, n = len(p), len(t)
    T = [B(x) for x in t]
    P = [B(x) for x in p]
    memo = {}
    def clen_is(j, L):
        b = T[j]
        if L == 1: return z3.ULT(b, 0x80)
        if L == 2: return z3.And(z3.UGE(b, 0xC0), z3.ULT(b, 0xE0))
        if L == 3: return z3.And(z3.UGE(b, 0xE0), z3.ULT(b, 0xF0))
        return z3.UGE(b, 0xF0)
    def M(i, j):
        k = (i, j)
        if k in memo: return memo[k]
        if i == m:
            r = z3.BoolVal(j == n)
        else:
            star = z3.Or(M(i + 1, j), M(i, j + 1)) if j < n else M(i + 1, j)
            if j < n:
                qm = z3.Or([z3.And(clen_is(j, L), M(i + 1, j + L)) for L in (1, 2, 3, 4) if j + L <= n] or [z3.BoolVal(False)])
                lit = z3.And(P[i] == T[j], M(i + 1, j + 1))
            else:
                qm = z3.BoolVal(False); lit = z3.BoolVal(False)
            r = z3.If(P[i] == 42, star, z3.If(P[i] == 63, qm, lit))
        # name the sub-term to keep the formula a DAG for the solver
        v = z3.Bool(f'refglob_{id(memo)}_{i}_{j}')
        memo[k] = v
        defs.append(v == r)
        return v
    defs = []
    top = M(0, 0)
    return top, defs

def py_glob(p, t):
    """concrete reference on python strings (characters)"""
    p, t = list(p), list(t)
    from functools import lru_cache
    @lru_cache(None)
    def M(i, j):
        if i == len(p): return j == len(t)
        if p[i] == '*': return M(i + 1, j) or (j < len(t) and M(i, j + 1))
        if j < len(t) and (p[i] == '?' or p[i] == t[j]): return M(i + 1, j + 1)
        return False
    return M(0, 0)

def py_normalize(m):
    if '!' in m:
        k = m.index('!')
        return m if '@' in m[k + 1:] else m + '@*'
    if '@' in m:
        k = m.index('@')
        return m[:k] + '!*' + m[k:]
    return m + '!*@*'

# ------------------------------------------------------------------------------------------ cases
def span_text(prog, span):
    import re
    m = re.match(r'(.*?):(\d+):(\d+): (\d+):(\d+)', span or '')
    if not m: return span or ''
    lines = prog.src_lines(m.group(1))
    l1, c1, l2, c2 = int(m.group(2)), int(m.group(3)), int(m.group(4)), int(m.group(5))
    if l1 - 1 >= len(lines): return span
    if l1 == l2: return lines[l1 - 1][c1 - 1:c2 - 1].strip()
    return lines[l1 - 1][c1 - 1:].strip()

def case_match(arg):
    profile, pl, tl, alpha, budget = arg
    prog = PROGS[profile]
    st = Stats()
    findings = []
    samples = []
    nontriv = [0]
    p = [z3.BitVec(f'p{i}', 8) for i in range(pl)]
    t = [z3.BitVec(f't{i}', 8) for i in range(tl)]
    ref, defs = ref_glob(p, t)
    def run(M):
        M.assume(utf8_valid_constraint(p)); M.assume(utf8_valid_constraint(t))
        if alpha == 'ascii':
            for b in p + t: M.assume(z3.ULT(b, 128))
        else:
            # the ASCII region is covered by the ascii cases: require at least one multi-byte character here
            M.assume(z3.Or([z3.UGE(b, 128) for b in p + t]))
        return M.run_fn('utils::match_wildcard', [Str(p), Str(t)])
    def on(r):
        M = r.M
        if r.kind == 'panic':
            md = M.solver.model() if M.solver.check() == z3.sat else None
            if md is None: return
            pb, tb = model_bytes(md, p), model_bytes(md, t)
            msg = r.value.msg
            pred = 'arith-overflow' if 'overflow' in msg else ('char-boundary' if 'char boundary' in msg else ('slice-range' if 'range' in msg or 'slice index' in msg else 'other'))
            findings.append(dict(kind='panic', site='match_wildcard: ' + span_text(prog, r.value.site), what=msg, predicate=pred,
                                 witness=dict(pattern=pb.hex(), text=tb.hex(), profile=profile), span=r.value.site))
            return
        if r.kind != 'ok': return
        nontriv[0] += 1
        res = r.value
        M.solver.push()
        for d in defs: M.solver.add(d)
        R = res if is_sym(res) else z3.BoolVal(bool(res))
        okk, md = check_valid(M, R == ref, st)
        if not okk:
            pb, tb = model_bytes(md, p), model_bytes(md, t)
            got = z3.is_true(md.eval(R, True))
            pred = 'multibyte' if any(x >= 128 for x in pb + tb) else 'ascii'
            findings.append(dict(kind='mismatch', site='match_wildcard result', what=f'returns {got}, glob semantics says {not got}',
                                 predicate=pred, witness=dict(pattern=pb.hex(), text=tb.hex(), profile=profile, got=got)))
        elif len(samples) < 2:
            md2 = M.solver.model() if M.solver.check() == z3.sat else None
            if md2 is not None:
                pb, tb = model_bytes(md2, p), model_bytes(md2, t)
                samples.append(dict(function='match_wildcard', profile=profile, pattern=pb.decode('utf-8', 'replace'), text=tb.decode('utf-8', 'replace'),
                                    result=bool(z3.is_true(md2.eval(R, True))), obligation='result == reference glob DP (unsat negation)',
                                    path_decisions=M.pos))
        M.solver.pop()
    explore(prog, run, on, stats=st, timeout_ms=budget['solver_ms'], max_steps=budget['steps'], max_paths=budget['paths'])
    return dict(stats=st, findings=findings, samples=samples, nontrivial=nontriv[0])

def py_ref_normalize_sym(M, mask):
    """reference normalisation executed on the same machine (branches coincide with the implementation's)"""
    bs = mask.bytes()
    def find(c, frm=0):
        for i in range(frm, len(bs)):
            b = bs[i]
            if M.branch((b == c) if is_sym(b) else (b == c)): return i
        return None
    e = find(33)
    if e is not None:
        a = find(64, e + 1)
        return bs + ([] if a is not None else [64, 42])
    a = find(64)
    if a is not None:
        return bs[:a] + [33, 42] + bs[a:]
    return bs + [33, 42, 64, 42]

def case_normalize(arg):
    profile, ln, alpha, budget = arg
    prog = PROGS[profile]
    st = Stats(); findings = []; samples = []; nontriv = [0]
    m = [z3.BitVec(f'm{i}', 8) for i in range(ln)]
    def run(M):
        M.assume(utf8_valid_constraint(m))
        if alpha == 'ascii':
            for b in m: M.assume(z3.ULT(b, 128))
        else:
            M.assume(z3.Or([z3.UGE(b, 128) for b in m] or [z3.BoolVal(False)]))
        out = M.run_fn('utils::normalize_sourcemask', [Str(m)])
        again = M.run_fn('utils::normalize_sourcemask', [out.view()])
        ref = py_ref_normalize_sym(M, Str(m))
        return out, again, ref
    def on(r):
        M = r.M
        if r.kind == 'panic':
            md = M.solver.model() if M.solver.check() == z3.sat else None
            if md is None: return
            mb = model_bytes(md, m)
            findings.append(dict(kind='panic', site='normalize_sourcemask: ' + span_text(prog, r.value.site), what=r.value.msg, predicate='panic',
                                 witness=dict(mask=mb.hex(), profile=profile), span=r.value.site))
            return
        if r.kind != 'ok': return
        nontriv[0] += 1
        out, again, ref = r.value
        eq = M.values_equal(out.view(), Str(ref))
        okk, md = check_valid(M, eq, st)
        if not okk:
            mb = model_bytes(md, m)
            findings.append(dict(kind='mismatch', site='normalize_sourcemask result', what='completion differs from nick!user@host rule: got ' + text_of(model_bytes(md, out.data)),
                                 predicate='completion', witness=dict(mask=mb.hex(), profile=profile)))
        idem = M.values_equal(out.view(), again.view())
        okk, md = check_valid(M, idem, st)
        if not okk:
            mb = model_bytes(md, m)
            findings.append(dict(kind='mismatch', site='normalize_sourcemask idempotence', what='normalising twice differs from normalising once',
                                 predicate='idempotence', witness=dict(mask=mb.hex(), profile=profile)))
        if len(samples) < 1:
            md2 = M.solver.model() if M.solver.check() == z3.sat else None
            if md2 is not None:
                samples.append(dict(function='normalize_sourcemask', mask=model_bytes(md2, m).decode('utf-8', 'replace'),
                                    result=model_bytes(md2, out.data).decode('utf-8', 'replace'), obligations=['== three-case completion', 'idempotent']))
    explore(prog, run, on, stats=st, timeout_ms=budget['solver_ms'], max_steps=budget['steps'], max_paths=budget['paths'])
    return dict(stats=st, findings=findings, samples=samples, nontrivial=nontriv[0])

def case_banned(arg):
    """caller-side: ChannelModes::banned(source) == (some ban mask matches) and not (some exception mask matches)"""
    profile, bl, el, sl, budget = arg
    prog = PROGS[profile]
    st = Stats(); findings = []; samples = []; nontriv = [0]
    b = [z3.BitVec(f'b{i}', 8) for i in range(bl)]
    e = [z3.BitVec(f'e{i}', 8) for i in range(el)]
    s = [z3.BitVec(f's{i}', 8) for i in range(sl)]
    rb, db = ref_glob(b, s)
    re_, de = ref_glob(e, s)
    has_exc = z3.Bool('has_exc')
    from mirsym.models.coll_m import SymKey
    def run(M):
        for x in b + e + s: M.assume(z3.ULT(x, 128))
        modes = M.run_fn(prog.impl_index[('ChannelModes', 'Default', 'default')][0], [])
        ban = HMap(True); ban.slots.append([SymKey(Str(b)), True, Cell(Tup())])
        exc = HMap(True); exc.slots.append([SymKey(Str(e)), True, Cell(Tup())])
        modes.fields[prog.struct_field('ChannelModes', 'ban')] = some(ban)
        modes.fields[prog.struct_field('ChannelModes', 'exception')] = Adt('Option', z3.If(has_exc, z3.BitVecVal(1, 64), z3.BitVecVal(0, 64)), [exc])
        return M.run_fn(prog.resolve_crate_fn('config::ChannelModes::banned'), [Ref(Cell(modes)), Str(s)])
    def on(r):
        M = r.M
        if r.kind == 'panic':
            return      # match_wildcard's own panics are judged by the match cases
        if r.kind != 'ok': return
        nontriv[0] += 1
        M.solver.push()
        for d in db + de: M.solver.add(d)
        R = r.value if is_sym(r.value) else z3.BoolVal(bool(r.value))
        spec = z3.And(rb, z3.Not(z3.And(has_exc, re_)))
        okk, md = check_valid(M, R == spec, st)
        if not okk:
            findings.append(dict(kind='mismatch', site='ChannelModes::banned', what='banned() differs from (ban matches) and not (exception matches)', predicate='banned',
                                 witness=dict(ban=model_bytes(md, b).hex(), exception=model_bytes(md, e).hex(), source=model_bytes(md, s).hex(),
                                              has_exception=bool(z3.is_true(md.eval(has_exc, True))), profile=profile)))
        M.solver.pop()
    explore(prog, run, on, stats=st, timeout_ms=budget['solver_ms'], max_steps=budget['steps'], max_paths=budget['paths'])
    return dict(stats=st, findings=findings, samples=samples, nontrivial=nontriv[0])

def dispatch(c):
    return {'match': case_match, 'norm': case_normalize, 'banned': case_banned}[c[0]](c[1:])

PROGS = {}

def main(tier, seed):
    run = CheckRun(PROP, tier, seed)
    profiles = ('dev',) if tier == 'quick' else ('dev', 'rel')
    run.prepare(profiles)
    for p in profiles: PROGS[p] = run.prog(p)
    if tier == 'quick':
        PA, TA, PU, TU, NL, budget = 4, 5, 3, 4, 6, dict(solver_ms=10000, steps=400000, paths=60000)
    else:
        PA, TA, PU, TU, NL, budget = 6, 7, 4, 5, 9, dict(solver_ms=60000, steps=2000000, paths=400000)
    run.bounds = dict(match_wildcard_ascii=f'pattern <= {PA} bytes x text <= {TA} bytes, every ASCII byte value symbolic',
                      match_wildcard_utf8=f'pattern <= {PU} x text <= {TU} bytes, any valid UTF-8 with at least one multi-byte character',
                      normalize_sourcemask=f'mask <= {NL} bytes (ASCII), <= {min(NL, 5)} bytes (UTF-8)',
                      banned='one ban mask <= 2 bytes, optional exception mask <= 2 bytes, source <= 3 bytes (ASCII)',
                      solver_timeout_ms=budget['solver_ms'], step_budget_per_path=budget['steps'],
                      outside='longer masks/texts; 4-byte UTF-8 sequences beyond the byte bound; call sites other than banned() (checked by C03/C07/C11/C12)')
    cases = []
    for prof in profiles:
        for pl in range(PA + 1):
            for tl in range(TA + 1):
                cases.append(('match', prof, pl, tl, 'ascii', budget))
        for pl in range(PU + 1):
            for tl in range(TU + 1):
                if pl + tl > 0: cases.append(('match', prof, pl, tl, 'utf8', budget))
        for ln in range(NL + 1):
            cases.append(('norm', prof, ln, 'ascii', budget))
        for ln in range(2, min(NL, 5) + 1):
            cases.append(('norm', prof, ln, 'utf8', budget))
        for bl in range(0, 3):
            for el in range(0, 3):
                for sl in range(0, 4):
                    cases.append(('banned', prof, bl, el, sl, budget))
    # big cases first
    cases.sort(key=lambda c: -(sum(x for x in c[2:5] if isinstance(x, int))))
    res = run_cases(dispatch, cases)
    cands = []
    for idx, out, errtxt in res:
        if errtxt:
            run.inconclusive.append(f'case {cases[idx][:5]} crashed: {errtxt[-800:]}')
            continue
        run.absorb(out['stats'])
        run.nontrivial += out['nontrivial']
        for s in out['samples']: run.sample(s)
        cands.extend(out['findings'])
    # dedupe candidates by role, keep the smallest witness
    by = {}
    for f in cands:
        k = (f['kind'], f['site'], f['predicate'], f['witness'].get('profile'))
        w = f['witness']
        size = sum(len(v) for v in w.values() if isinstance(v, str))
        if k not in by or size < by[k][0]: by[k] = (size, f)
    confirm(run, [v[1] for v in by.values()])
    run.assumptions = ['inputs are valid UTF-8 (they reach the code as &str)', 'std str/slice models as listed in env_models_used',
                       'dev profile = overflow checks on; release = wrapping arithmetic (separate MIR dump)']
    run.finish()

def confirm(run, cands):
    """replay each candidate natively in the profile it was found in"""
    if not cands:
        # differential validation: a few passing witnesses through the native function
        validate(run)
        return
    for prof, rel in (('dev', False), ('rel', True)):
        cs = [f for f in cands if f['witness'].get('profile') == prof]
        if not cs: continue
        reqs = []
        for f in cs:
            w = f['witness']
            if 'pattern' in w: reqs.append(('match_wildcard', [bytes.fromhex(w['pattern']), bytes.fromhex(w['text'])]))
            elif 'mask' in w: reqs.append(('normalize_sourcemask', [bytes.fromhex(w['mask'])]))
            else: reqs.append(None)
        live = [(f, r) for f, r in zip(cs, reqs) if r is not None]
        outs = run.native_calls([r for _, r in live], release=rel) if live else []
        for (f, rq), (status, payload) in zip(live, outs):
            fi = Finding(PROP, f['kind'], f['site'], f['what'], f['witness'], role=dict(predicate=f['predicate']),
                         replay=dict(function=rq[0], args=[a.hex() for a in rq[1]], profile=prof))
            w = f['witness']
            if f['kind'] == 'panic':
                fi.confirmed = (status == 'panic'); fi.native = status + ': ' + payload.decode('utf-8', 'replace')
            elif rq[0] == 'match_wildcard':
                pt, tt = bytes.fromhex(w['pattern']).decode(), bytes.fromhex(w['text']).decode()
                want = py_glob(pt, tt)
                fi.native = status + ': ' + payload.decode('utf-8', 'replace')
                fi.confirmed = (status == 'panic') or (payload.decode() != str(want).lower())
            else:
                mt = bytes.fromhex(w['mask']).decode()
                fi.native = status + ': ' + payload.decode('utf-8', 'replace')
                fi.confirmed = (status == 'panic') or (payload.decode() != py_normalize(mt))
            run.add_finding(fi)
        for f, r in zip(cs, reqs):
            if r is None:
                fi = Finding(PROP, f['kind'], f['site'], f['what'], f['witness'], role=dict(predicate=f['predicate']))
                fi.confirmed = None; fi.native = 'no native replay for this site'
                run.add_finding(fi)
    validate(run)

def validate(run):
    """differential validation of the encoder: concrete inputs through the interpreter and the native function"""
    from mirsym.machine import Machine
    vec = [('*', ''), ('a*b', 'ab'), ('a*b', 'acb'), ('?a', 'ba'), ('a?c*', 'abcd'), ('*a*', 'bab'), ('ab', 'abc'), ('', ''), ('', 'a'), ('a*', 'a'), ('*?', 'ab'), ('**', 'x'),
           ('a?', 'a'), ('?*?', 'ab'), ('*!*@*', 'n!u@h'), ('n!*@h?', 'n!u@h1')]
    nv = [('', ), ('a',), ('a!b',), ('a@b',), ('a!b@c',), ('@',), ('!',), ('a@b!c',)]
    prog = run.prog('dev')
    reqs = [('match_wildcard', [p.encode(), t.encode()]) for p, t in vec] + [('normalize_sourcemask', [m[0].encode()]) for m in nv]
    try:
        outs = run.native_calls(reqs, release=False)
    except Exception as e:
        run.inconclusive.append('encoder validation could not run natively: ' + str(e)[:300]); return
    for (fn, args), (status, payload) in zip(reqs, outs):
        M = Machine(prog)
        try:
            if fn == 'match_wildcard':
                r = M.run_fn('utils::match_wildcard', [mkstr(args[0]), mkstr(args[1])])
                mine = ('ok', str(bool(r)).lower().encode())
            else:
                r = M.run_fn('utils::normalize_sourcemask', [mkstr(args[0])])
                mine = ('ok', bytes(r.data))
        except Panic as e:
            mine = ('panic', b'')
        if mine[0] != status or (status == 'ok' and mine[1] != payload):
            run.inconclusive.append(f'ENCODER-MISMATCH {fn}{[a.decode() for a in args]}: interpreter {mine} native {(status, payload)}')
        run.validation_vectors += 1

if __name__ == '__main__':
    main(sys.argv[1], int(sys.argv[2]))
