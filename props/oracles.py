"""Executable specifications (oracles) written from the property statements, over the abstract relations of post.py.

Every judge returns obligations (id, description, term); the solver must show each term valid under the path
condition.  Oracles are three-valued: where a statement is silent the oracle accepts either behaviour.
"""
import z3
from mirsym.values import *
from mirsym.post import And, Or, Not, Iff, Implies, L, BV, bv_sum, opt_cond
from mirsym.steplib import judge, buf_text
from mirsym.world import RANKS, CHFLAGS, UMODES

# ------------------------------------------------------------------------------------------ reference IRC line parser
def ref_parse(bs):
    """RFC 1459 2.3.1 on a concrete byte string -> (source|None, verb, [params]) or None"""
    s = bytes(bs)
    i = 0
    n = len(s)
    src = None
    while i < n and s[i] == 32: i += 1
    if i < n and s[i] == 58:
        j = s.find(b' ', i)
        if j < 0: return None
        src = s[i + 1:j]; i = j
    while i < n and s[i] == 32: i += 1
    j = i
    while j < n and s[j] != 32: j += 1
    verb = s[i:j]
    if not verb or verb[:1] == b':': return None      # a trailing parameter where the command should be: no command
    params = []
    i = j
    while i < n:
        while i < n and s[i] == 32: i += 1
        if i >= n: break
        if s[i] == 58:
            params.append(s[i + 1:]); break
        j = i
        while j < n and s[j] != 32: j += 1
        params.append(s[i:j]); i = j
    return src, verb, params

def is_concrete(b):
    return all(isinstance(x, int) for x in b)

def relay_pred(src, verb, params):
    """predicate on a delivered line: re-parsed by the reference grammar it is this source, verb and parameters"""
    want = (src.encode() if isinstance(src, str) else src, verb.encode() if isinstance(verb, str) else verb,
            [p.encode() if isinstance(p, str) else p for p in params])
    def pred(line):
        if not is_concrete(line): return False
        r = ref_parse(line)
        return r is not None and r[0] == want[0] and r[1].upper() == want[1] and r[2] == want[2]
    pred.desc = ' '.join([':' + want[0].decode('utf-8', 'replace'), want[1].decode()] + [p.decode('utf-8', 'replace') for p in want[2]])
    return pred

def numeric_pred(server, num, client, *rest_prefix):
    """predicate: ':server NUM client rest...' (rest compared as prefix tokens)"""
    head = f':{server} {num} {client}'.encode()
    toks = [t.encode() if isinstance(t, str) else t for t in rest_prefix]
    def pred(line):
        if not is_concrete(line):
            # numerics with symbolic decimal segments: compare the concrete prefix only
            pre = []
            for x in line:
                if not isinstance(x, int): break
                pre.append(x)
            s = bytes(pre)
        else:
            s = bytes(line)
        if not (s == head or s.startswith(head + b' ')): return False
        parts = s[len(head):].split()
        return parts[:len(toks)] == toks
    pred.desc = head.decode() + ' ' + ' '.join(t.decode() for t in toks)
    return pred

def delivery_obligations(label, actual, expected, allow_extra=None):
    """actual: list of byte lists; expected: list of (desc, cond, pred): exactly one line matching pred iff cond.
    Lines matching no expectation are violations unless allow_extra(line)."""
    obs = []
    used = [False] * len(actual)
    for desc, cond, pred in expected:
        idx = [i for i, ln in enumerate(actual) if pred(ln)]
        for i in idx: used[i] = True
        k = len(idx)
        if k == 0: obs.append((label + ':missing', f'{label}: expected exactly when due: {desc}', Not(cond)))
        elif k == 1: obs.append((label + ':spurious', f'{label}: delivered although not due: {desc}', cond if not isinstance(cond, bool) else cond))
        else: obs.append((label + ':duplicate', f'{label}: {k} copies of {desc}', False))
    for i, ln in enumerate(actual):
        if not used[i] and not (allow_extra and allow_extra(ln)):
            obs.append((label + ':unexpected', f'{label}: unexpected line {buf_text(ln)!r}', False))
    return obs

# ------------------------------------------------------------------------------------------ rank predicates on a snapshot
def r_protected(s, n, c): return Or(s.rank(n, c, 'founder'), s.rank(n, c, 'protected'))
def r_operator(s, n, c): return Or(r_protected(s, n, c), s.rank(n, c, 'operator'))
def r_halfop(s, n, c): return Or(r_operator(s, n, c), s.rank(n, c, 'half_oper'))
def r_only_half(s, n, c): return And(Not(r_operator(s, n, c)), s.rank(n, c, 'half_oper'))
def r_voice(s, n, c): return Or(r_halfop(s, n, c), s.rank(n, c, 'voice'))

# ------------------------------------------------------------------------------------------ frame: nothing else changes
def relations(s, M):
    """flat dict relation-key -> term of a snapshot (only facts that are meaningful: conditioned on container liveness)"""
    out = {}
    for n, u in s.users.items():
        out[('user', n)] = u['live']
        for m in UMODES: out[('umode', n, m)] = And(u['live'], u['modes'][m])
        out[('away', n)] = And(u['live'], u['away'])
        for c, l in u['invited'].items(): out[('invited', n, c)] = And(u['live'], l)
        for c, l in u['channels'].items(): out[('userchan', n, c)] = And(u['live'], l)
    for c, ch in s.chans.items():
        out[('chan', c)] = ch['live']
        out[('preconf', c)] = And(ch['live'], ch['preconf'])
        for f in CHFLAGS: out[('flag', c, f)] = And(ch['live'], ch['flags'][f])
        out[('haskey', c)] = And(ch['live'], opt_cond(ch['key']))
        out[('haslimit', c)] = And(ch['live'], opt_cond(ch['limit']))
        out[('hastopic', c)] = And(ch['live'], opt_cond(ch['topic']))
        for k, l in ch['ban'].items(): out[('ban', c, k)] = And(ch['live'], l)
        for k, l in ch['exception'].items(): out[('exc', c, k)] = And(ch['live'], l)
        for k, l in ch['invex'].items(): out[('invex', c, k)] = And(ch['live'], l)
        for n, m in ch['members'].items():
            out[('member', n, c)] = And(ch['live'], m['live'])
            for r in RANKS: out[('rank', n, c, r)] = And(ch['live'], m['live'], m['ranks'][r])
    for n, l in s.wallops.items(): out[('wallops', n)] = l
    return out

def frame_obligations(ctx, allow, label='frame'):
    """every relation not allowed to change is the same before and after"""
    M = ctx.M
    a, b = relations(ctx.pre, M), relations(ctx.post, M)
    obs = []
    for k in sorted(set(a) | set(b), key=str):
        if allow(k): continue
        x, y = a.get(k, False), b.get(k, False)
        obs.append((label + ':' + k[0], f'unaddressed state changed: {k}', Iff(x, y)))
    # option payloads
    for c in ctx.pre.chans:
        if c not in ctx.post.chans: continue
        p, q = ctx.pre.chans[c], ctx.post.chans[c]
        both = And(p['live'], q['live'])
        for fname, key in (('key', 'haskey'), ('limit', 'haslimit'), ('topic', 'hastopic')):
            if allow((key, c)): continue
            if isinstance(both, bool) and not both: continue
            pc, qc = opt_cond(p[fname]), opt_cond(q[fname])
            if (isinstance(pc, bool) and not pc) or (isinstance(qc, bool) and not qc): continue
            try:
                eq = M.values_equal(p[fname].fields[0], q[fname].fields[0]) if p[fname].fields and q[fname].fields else True
            except EncoderGap:
                continue
            obs.append((label + ':' + fname, f'{fname} of {c} changed', Implies(And(both, pc, qc), eq)))
    return obs

def counters_frame(ctx):
    return [('frame:counter', 'invisible_users_count changed', BV(ctx.pre.inv_count) == BV(ctx.post.inv_count)),
            ('frame:counter', 'operators_count changed', BV(ctx.pre.op_count) == BV(ctx.post.op_count))]

def queue_silent(ctx, nicks, label):
    obs = []
    for n in nicks:
        q = ctx.queues.get(n, [])
        if q:
            obs.append((label + ':unexpected', f'{label}: {n} receives {buf_text(q[0])!r} although nothing is addressed to it', False))
    return obs

def server(ctx): return ctx.w.spec.server
def src_of(ctx, n): return ctx.w.source(n)
