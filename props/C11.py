"""C11  Operator status comes only from OPER and operator commands require it."""
import sys
from props.common import run_property
import props.oper, props.life  # noqa

PROP = 'C11'

def make_cases(tier, profile):
    cases = []
    base = dict(sym_caps=False, sym_max_joins=False, sym_topic=False, sym_key=False, sym_limit=False, sym_lists=False, sym_flags=False, sym_ranks=False,
                sym_invites=False, sym_away=False, plain_chans=['#x', '&y'], nicks=['alice', 'bob', 'carol'])
    # user modes on the own and on foreign nicks; the actor's nick may equal a configured operator name
    for opers in ([], [('alice', 'goodpw', None)], [('opname', 'goodpw', None)]):
        tag = ' [operators: %s]' % (','.join(o[0] for o in opers) or 'none')
        for ms in ['+o', '-o', '+O', '-O', '+i', '-i', '+w', '-w', '+oO', '-oO', '+io-w', '+r', '-r', '', '+o-o', '-o+o']:
            line = ('MODE alice ' + ms).strip()
            cases.append(dict(name=line + tag, line=line, judges=['no_panic', 'inv', 'umode'], spec=dict(base, operators=opers)))
    for l in ['MODE bob +i', 'MODE bob +o', 'MODE dave +i', 'MODE bob']:
        cases.append(dict(name=l, line=l, judges=['no_panic', 'inv', 'umode'], spec=dict(base, sym_users=True)))
    # OPER: right / wrong name, password, mask
    for opers, tag in (([('opname', 'goodpw', None)], 'no mask'), ([('opname', 'goodpw', 'a*!*@*')], 'matching mask'), ([('opname', 'goodpw', 'bob!*@*')], 'foreign mask'),
                       ([('alice', 'goodpw', None)], 'operator named like the nick'), ([], 'no operators')):
        for l in ['OPER opname goodpw', 'OPER opname badpw', 'OPER nobody goodpw', 'OPER alice goodpw', 'OPER alice x']:
            cases.append(dict(name=f'{l} [{tag}]', line=l, judges=['no_panic', 'inv', 'oper'], spec=dict(base, operators=opers)))
    # operator commands from every privilege level
    ospec = dict(base, sym_users=True, operators=[('opname', 'goodpw', None)])      # operators configured: the actor may be an operator
    for l in ['KILL bob :go away', 'KILL dave :x', 'KILL alice :self', 'DIE', 'DIE :bye all', 'SQUIT irc.irc :stop', 'SQUIT other.srv :stop', 'WALLOPS :attention', 'WALLOPS hello', 'STATS u', 'STATS m']:
        cases.append(dict(name=l, line=l, judges=['no_panic', 'inv', 'opcmd'], spec=ospec))
    lspec = dict(base, sym_users=True, default_user_modes={'local_oper': True}, operators=[('opname', 'goodpw', None)])
    for l in ['KILL bob :go away', 'DIE', 'SQUIT irc.irc :x', 'WALLOPS :attention', 'STATS u', 'MODE alice -O', 'MODE alice -o', 'MODE alice +o', 'MODE alice -oO', 'MODE alice -Oo', 'OPER opname goodpw']:
        cases.append(dict(name=l + ' [every user is a local operator by default_user_modes]', line=l, judges=['no_panic', 'inv', 'opcmd', 'umode', 'oper'], spec=lspec))
    # a nick change to a configured operator name confers nothing
    cases.append(dict(name='NICK opname [operators: opname]', line='NICK opname', judges=['no_panic', 'inv', 'nick'], spec=dict(base, operators=[('opname', 'goodpw', None)])))
    if tier != 'quick':
        # every one- and two-letter mode change (all sign combinations), three configurations; operator commands over four users with symbolic channel membership
        import itertools
        done = {c['name'] for c in cases}
        L = 'oOiwr'
        strs = [a + x for a in '+-' for x in L] + [a + x + b + y for a in '+-' for b in '+-' for x in L for y in L] + ['+' + x + y for x in L for y in L if x != y] + ['+ooo', '-OoO', '+z', '+o bob', '+']
        for opers in ([], [('alice', 'goodpw', None)], [('opname', 'goodpw', 'bob!*@*')]):
            tag = ' [operators: %s]' % (','.join(o[0] for o in opers) or 'none')
            for ms in strs:
                line = 'MODE alice ' + ms
                if line + tag in done: continue
                cases.append(dict(name=line + tag, line=line, judges=['no_panic', 'inv', 'umode'], spec=dict(base, operators=opers)))
        big = dict(base, sym_users=True, nicks=['alice', 'bob', 'carol', 'erin'], sym_ranks=True, sym_away=True, sym_invites=True)
        for l in ['KILL bob :go away', 'KILL erin', 'KILL carol :x y', 'KILL alice :self', 'DIE', 'SQUIT irc.irc :stop', 'WALLOPS :attention', 'OPER opname goodpw', 'OPER alice goodpw']:
            cases.append(dict(name=l + ' [four users, symbolic channels]', line=l, judges=['no_panic', 'inv', 'opcmd'] if not l.startswith('OPER') else ['no_panic', 'inv', 'oper'],
                              spec=dict(big, operators=[('opname', 'goodpw', 'a*!*@*')] if l.startswith('OPER') else [])))
    cases.append(dict(name='NICK opname, then MODE opname +o', prelude=[('alice', 'NICK opname')], line='MODE opname +o', actor='alice', judges=['no_panic'],
                      spec=dict(base, operators=[('opname', 'goodpw', None)]), post_judge='after_rename'))
    return cases

BOUNDS = dict(universe='3 users with all five user modes symbolic (so every privilege level of actor and victims), registration of the other users symbolic for operator commands',
              configurations='no operator, an operator with/without (matching / foreign) mask, an operator whose name equals the actor\'s nick',
              commands='MODE <nick> with 1-3 letters from +-oOiwr on own/foreign/unknown nick, OPER (right/wrong name, password), KILL, DIE, SQUIT (this/other server), WALLOPS, STATS, NICK to an operator name',
              outside='argon2 itself: verify(password, hash) is the uninterpreted relation "hash was generated from password"; the +r letter is not part of the statement')

if __name__ == '__main__':
    run_property(PROP, sys.argv[1], int(sys.argv[2]), make_cases, BOUNDS,
                 ['KILL, DIE and SQUIT require the (full) operator flag; WALLOPS and STATS accept local operators as well (as the statement words it)',
                  'verify(pw, hash) holds exactly when the configured hash was generated from pw'])
