"""C01  Messages reach exactly the addressed audience, once, truly attributed."""
import sys
from props.common import run_property
import props.msg  # noqa: registers the judges

PROP = 'C01'
TARGETS_Q = ['#x', 'bob', 'alice', 'dave', '#nochan', '@#x', '+#x', '~&@%+#x', '&y', '&&y', '@+#x', '#x,bob', '#x,#x', 'bob,@#x', '#x,&y', '@#x,+#x', '#x,bob,#x', 'bob,#x,bob', 'dave,bob', 'dave,#x']
TARGETS_T = TARGETS_Q + ['%#x', '~#x', '&#x', '@&y', '~&&y', 'bob,carol,alice', '#x,@#x,bob', 'dave,#nochan,#x', '&y,&&y', '@#x,bob,@#x', 'bob,carol,bob,carol', '#x,&y,#x']

def make_cases(tier, profile, judges=('no_panic', 'inv', 'msg_delivery'), verbs=('PRIVMSG', 'NOTICE')):
    cases = []
    texts = ['hello'] if tier == 'quick' else ['hello', 'a :b  c', ':)']
    for verb in verbs:
        for t in (TARGETS_Q if tier == 'quick' else TARGETS_T):
            for tx in texts:
                line = f'{verb} {t} :{tx}'
                chans_used = [c for c in ('#x', '&y') if c in t]
                plain = [c for c in ('#x', '&y') if c not in chans_used] or []
                if len(chans_used) == 2: plain = ['&y']
                split = []
                partial = {}
                nprefix = max([len(x) - len(x.lstrip('~&@%+')) for x in t.split(',')])
                if '#x' in t: split = ['mem_bob_#x', 'mem_carol_#x']
                if nprefix >= 3 and '#x' in t:
                    partial = {'mem_carol_#x': False}; split = ['mem_bob_#x', 'mem_alice_#x', 'founder_bob_#x', 'protected_bob_#x', 'operator_bob_#x']
                if t.count(',') >= 1 and '#x' in t:
                    partial = {'mem_carol_#x': False, 'mem_carol_&y': False}; split = ['mem_bob_#x', 'mem_alice_#x']
                cases.append(dict(name=line, line=line, judges=list(judges), split=split, partial0=partial,
                                  spec=dict(sym_modes=False, sym_caps=False, sym_invites=False, sym_max_joins=False, sym_topic=False, sym_key=False, sym_limit=False,
                                            sym_preconf=False, plain_chans=plain, nicks=['alice', 'bob', 'carol'])))
    return cases

BOUNDS = dict(universe='3 users, channels #x/&y (+ unknown channel, unknown nick); memberships, all rank flags, n/m/s flags, ban and exception lists, away state symbolic',
              commands='PRIVMSG and NOTICE with 1-3 targets: channels, status-prefixed channels (single and combined prefixes), local & channels, nicks, own nick, unknown names, duplicates',
              outside='more than 3 targets; texts other than the listed ones (C13 covers the text repertoire); order in which receivers drain their queues (tokio mpsc FIFO taken by contract)')

if __name__ == '__main__':
    run_property(PROP, sys.argv[1], int(sys.argv[2]), make_cases, BOUNDS,
                 ['a copy to the sender when the target is its own nick is accepted either way (statement ambiguous)',
                  'a status-prefixed target addresses the members holding one of the named statuses, each exactly once'])
