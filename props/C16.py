"""C16  Channels are born with a founder, die with the last member, or come from config."""
import sys
import z3
from mirsym.steplib import judge, call
from mirsym.post import And, Or, Not, Iff, Implies, opt_cond, Snapshot
from mirsym.values import *
from mirsym.world import mk, fld, hset, opt_sym, RANKS, RANK_SETS, CHFLAGS
from props.oracles import *
from props.common import run_property
import props.life, props.C07  # noqa

PROP = 'C16'

@judge('join_defmodes')
def j_join_defmodes(ctx):
    """a user joining a preconfigured channel gets exactly the configured ranks"""
    r = ref_parse(ctx.line.encode())
    if r[1].upper() != b'JOIN' or ctx.outcome != 'ok': return []
    pre, post, a, w = ctx.pre, ctx.post, ctx.actor, ctx.w
    obs = []
    for c in r[2][0].decode().split(','):
        if c not in pre.chans or c not in post.chans: continue
        joined = And(Not(pre.member(a, c)), post.member(a, c), pre.chan_live(c))
        for rk in RANKS:
            obs.append(('defmodes:grant', f'JOIN {c}: rank {rk} is granted exactly when configured for this nick',
                        Implies(joined, Iff(post.rank(a, c, rk), w.defmode[(a, c, rk)]))))
    return obs

@call('new_from_config')
def c_new_from_config(ctx):
    """VolatileState::new_from_config on a configuration declaring one channel whose every attribute is symbolic"""
    M, w, prog = ctx.M, ctx.w, ctx.prog
    S = lambda st, **f: mk(prog, st, **f)
    B = lambda n: z3.Bool('cfg_' + n)
    v = ctx.cfgvars = dict(flags={f: B(f) for f in CHFLAGS}, haskey=B('haskey'), haslimit=B('haslimit'), limit=z3.BitVec('cfg_limit', 64), hastopic=B('hastopic'),
                           ban=B('ban'), exc=B('exc'), invex=B('invex'), ranks={(n, r): B(f'{r}_{n}') for n in ('alice', 'bob') for r in RANKS},
                           has_list={r: B('haslist_' + r) for r in RANKS})
    def rs(r):
        return opt_sym(v['has_list'][r], hset([(n, v['ranks'][(n, r)]) for n in ('alice', 'bob')]))
    modes = S('ChannelModes', ban=opt_sym(v['ban'], hset([('m1!*@*', True)])), exception=opt_sym(v['exc'], hset([('m2!*@*', True)])),
              client_limit=opt_sym(v['haslimit'], v['limit']), invite_exception=opt_sym(v['invex'], hset([('m3!*@*', True)])),
              key=opt_sym(v['haskey'], mkstring('cfgkey')), operators=rs('operator'), half_operators=rs('half_oper'), voices=rs('voice'),
              founders=rs('founder'), protecteds=rs('protected'), **{f: v['flags'][f] for f in CHFLAGS})
    cc = S('ChannelConfig', name=mkstring('#pre'), topic=opt_sym(v['hastopic'], mkstring('configured topic')), modes=modes)
    cfg = w.main.fields[prog.struct_field('MainState', 'config')]
    cfg.fields[prog.struct_field('MainConfig', 'channels')] = some(VecV([cc]))
    name = prog.resolve_crate_fn('state::structs::VolatileState::new_from_config')
    vs = M.run_fn(name, [Ref(Cell(cfg))])
    ctx.from_config = Snapshot(prog, vs)
    return vs

@judge('from_config')
def j_from_config(ctx):
    if ctx.outcome != 'ok': return []
    s = ctx.from_config; v = ctx.cfgvars; M = ctx.M
    obs = [('config:exists', 'a declared channel exists from start-up', s.chan_live('#pre'))]
    if '#pre' not in s.chans: return obs
    ch = s.chans['#pre']
    obs.append(('config:preconfigured', 'a declared channel is marked preconfigured (persists while empty)', ch['preconf']))
    obs.append(('config:empty', 'a declared channel starts without members', Not(Or(*[m['live'] for m in ch['members'].values()]))))
    for f in CHFLAGS: obs.append(('config:flags', f'flag {f} as configured', Iff(ch['flags'][f], v['flags'][f])))
    obs.append(('config:key', 'key as configured', Iff(opt_cond(ch['key']), v['haskey'])))
    if ch['key'].fields: obs.append(('config:key', 'key value as configured', Implies(opt_cond(ch['key']), M.values_equal(ch['key'].fields[0], mkstr('cfgkey')))))
    obs.append(('config:limit', 'limit as configured', Iff(opt_cond(ch['limit']), v['haslimit'])))
    if ch['limit'].fields: obs.append(('config:limit', 'limit value as configured', Implies(opt_cond(ch['limit']), BV(ch['limit'].fields[0]) == v['limit'])))
    obs.append(('config:topic', 'topic as configured', Iff(opt_cond(ch['topic']), v['hastopic'])))
    obs.append(('config:lists', 'ban list as configured', Iff(ch['ban'].get('m1!*@*', False), v['ban'])))
    obs.append(('config:lists', 'exception list as configured', Iff(ch['exception'].get('m2!*@*', False), v['exc'])))
    obs.append(('config:lists', 'invite-exception list as configured', Iff(ch['invex'].get('m3!*@*', False), v['invex'])))
    dm = ch['default_modes']
    for r in RANKS:
        live = {k: x[0] for k, x in __import__('mirsym.post', fromlist=['slots_of']).slots_of(fld(ctx.prog, dm, RANK_SETS[r])).items()}
        for n in ('alice', 'bob'):
            obs.append(('config:ranks', f'configured {r} list is kept as the default rank of {n}', Iff(live.get(n, False), And(v['has_list'][r], v['ranks'][(n, r)]))))
            obs.append(('config:ranks', f'nobody holds rank {r} before joining', Not(ch['ranksets'][r].get(n, False))))
    return obs

@judge('join_repeated')
def j_join_repeated(ctx):
    """a JOIN naming the same not yet existing channel more than once: whatever is announced, the joiner ends up as its founder and operator"""
    r = ref_parse(ctx.line.encode())
    if r[1].upper() != b'JOIN' or ctx.outcome != 'ok': return []
    pre, post, a = ctx.pre, ctx.post, ctx.actor
    obs = []
    for c in sorted(set(r[2][0].decode().split(','))):
        if c in pre.chans: continue
        obs.append(('birth:member', f'JOIN {ctx.line.split()[1]}: the joiner is a member of the new channel {c}', And(post.chan_live(c), post.member(a, c))))
        obs.append(('birth:founder', f'JOIN {ctx.line.split()[1]}: the joiner of the new channel {c} is its founder and operator', And(post.rank(a, c, 'founder'), post.rank(a, c, 'operator'))))
    return obs

def make_cases(tier, profile):
    base = dict(sym_caps=False, sym_max_joins=True, sym_topic=True, sym_modes=False, sym_away=False, sym_ranks=False, plain_chans=['&y'], nicks=['alice', 'bob', 'carol'])
    only_alice = {'mem_alice_#x': True, 'mem_bob_#x': False, 'mem_carol_#x': False, 'exists_#x': True}
    cases = [dict(name='JOIN #new (birth)', line='JOIN #new', judges=['no_panic', 'inv', 'join'], spec=base),
             dict(name='PART by the last member, then JOIN (rebirth)', prelude=[('alice', 'PART #x')], line='JOIN #x', judges=['no_panic', 'inv', 'join'], spec=base, partial0=only_alice),
             dict(name='PART by the last member (death)', line='PART #x', judges=['no_panic', 'inv', 'part'], spec=base, partial0=only_alice),
             dict(name='KICK of the last member, then JOIN (rebirth)', prelude=[('alice', 'KICK #x alice')], line='JOIN #x K1', judges=['no_panic', 'inv', 'join'],
                  spec=dict(base, sym_ranks=True), partial0=dict(only_alice, **{'founder_alice_#x': False, 'protected_alice_#x': False})),
             dict(name='QUIT of the last member, then JOIN by another (rebirth)', actor='bob', prelude=[('alice', 'QUIT'), ('alice', ('call', 'remove_user'))], line='JOIN #x',
                  judges=['no_panic', 'inv', 'join'], spec=base, partial0=only_alice),
             dict(name='JOIN a preconfigured channel with configured ranks', line='JOIN #x', judges=['no_panic', 'inv', 'join_defmodes'],
                  spec=dict(base, sym_default_modes=True, sym_lists=False, sym_topic=False, sym_invites=False, sym_max_joins=False, sym_flags=False, sym_key=False, sym_limit=False),
                  partial0={'preconf_#x': True, 'exists_#x': True, 'mem_alice_#x': False}, split=['mem_bob_#x', 'mem_carol_#x', 'def_founder_alice_#x', 'def_operator_alice_#x']),
             dict(name='JOIN #new,#new (the same new channel twice)', line='JOIN #new,#new', judges=['no_panic', 'inv', 'join_repeated'], spec=dict(base, sym_max_joins=False)),
             dict(name='JOIN #new,&y,#new', line='JOIN #new,&y,#new', judges=['no_panic', 'inv', 'join_repeated'], spec=dict(base, sym_max_joins=False)),
             dict(name='channels declared in the configuration', line='', call='new_from_config', judges=['no_panic', 'from_config'], spec=base)]
    return cases

BOUNDS = dict(universe='as C07 for creation; destruction by PART / KICK / QUIT+teardown of the only member followed by a JOIN in the same world; one declared channel with every attribute symbolic (flags, key, 64-bit limit, topic, three mask lists, five rank lists over two nicks)',
              outside='TOML decoding of the configuration file (toml/serde crates); more than one declared channel')

if __name__ == '__main__':
    run_property(PROP, sys.argv[1], int(sys.argv[2]), make_cases, BOUNDS,
                 ['the old channel object cannot survive re-creation: the map slot is dead after removal and the JOIN oracle checks the fresh template'])
