"""C05  No input can crash a session handler or the server."""
import sys, time
import z3
from mirsym.steplib import judge
from mirsym.post import And, Or, Not, Iff, Implies
from mirsym.values import *
from mirsym.explore import explore, Stats, model_of
from mirsym.checklib import span_text, model_bytes
from mirsym.models.str_m import utf8_valid_constraint
from props.oracles import *
from props.common import run_property, pure
import props.oper  # kill_state

PROP = 'C05'

@judge('keeps_serving')
def j_keeps_serving(ctx):
    """the sending connection stays open unless the protocol ends it; no other connection is closed"""
    if ctx.outcome != 'ok': return []
    r = ref_parse(ctx.line.encode()) if ctx.line.strip() else None
    verb = r[1].upper().decode() if r else ''
    obs = []
    q = ctx.quit
    if verb != 'QUIT':
        obs.append(('serve:stays-open', f'{verb or "line"} does not end the sending session', q == 0))
    from props.oper import kill_state
    pre = ctx.pre
    a = ctx.actor
    oper = pre.users[a]['modes']['oper'] if a in pre.users else False
    lo = Or(oper, pre.users[a]['modes']['local_oper']) if a in pre.users else False
    for n, (sent, val) in kill_state(ctx).items():
        if verb in ('KILL', 'DIE', 'SQUIT'):
            obs.append(('serve:bystander', f'{verb} ends the session of {n} only when issued by an operator', Implies(Not(lo), not sent)))
        else:
            obs.append(('serve:bystander', f'{verb or "line"} does not end the session of {n}', not sent))
    if verb not in ('DIE', 'SQUIT'):
        obs.append(('serve:server', f'{verb or "line"} does not stop the server', not ctx.w.server_quit.sent))
    return obs

# ------------------------------------------------------------------------------------------ the line menu
def lines_for(tier):
    N = ['bob', 'alice', 'dave', 'bob,bob', 'bob,carol,dave', '']
    C = ['#x', '&y', '#nochan', '#x,#x', '#x,&y,#nochan', '#', '&', '#x,', ',#x']
    big = '18446744073709551615'; over = '18446744073709551616'
    M = ['*', '*ab', 'a*b*c*', '?', '??????????', '*!*@*', 'a*!*@*', '*a', '**', '*?*', 'é*', '*é', '?é', 'bob!*@*', '*@127.0.0.1', '!', '@', '!@', 'x!y', 'x@y', '*!', '*ab*cd*ef*gh']
    L = []
    for c in ['#x', '&y', '#nochan', '#x,&y', '#x,#x', '#new,#new', '#x,#nochan,&y']:
        L += [f'JOIN {c}', f'JOIN {c} K1', f'JOIN {c} K1,K2', f'JOIN {c} ,', f'PART {c}', f'PART {c} :r', f'NAMES {c}', f'LIST {c}', f'LIST {c} srv.x']
    L += ['JOIN', 'JOIN 0', 'JOIN #', 'JOIN x', 'PART', 'NAMES', 'LIST', 'LIST *', 'JOIN #x,#x K1', 'JOIN #é', 'JOIN #' + 'c' * 300]
    for v in ['bob', 'alice', 'dave', 'bob,bob', 'bob,alice', 'alice,alice', 'bob,carol,dave,bob', '#x', '']:
        for c in ['#x', '&y', '#nochan']:
            L += [f'KICK {c} {v}', f'KICK {c} {v} :c']
    L += ['KICK', 'KICK #x', 'KICK #x bob :', 'KICK x bob']
    for c in ['#x', '&y', '#nochan']:
        L += [f'TOPIC {c}', f'TOPIC {c} :', f'TOPIC {c} :t t', f'TOPIC {c} é', f'INVITE bob {c}', f'INVITE dave {c}', f'INVITE alice {c}', f'MODE {c}', f'WHO {c}']
        for ms in ['+b', '+e', '+I', '-b', '+b x', '-b x', '+o', '+o bob', '+o dave', '-o alice', '+l 0', '+l ' + big, '+l ' + over, '+l -1', '+l x', '-l', '-l 3', '+k', '+k K', '-k', '-k K', '+imtns', '-imtns',
                   '+o-o+o bob bob bob', '+ov bob', '+vhoaq alice alice alice alice alice', '-vhoaq alice alice alice alice alice', '+bbb a b', '+z', '+', '-', '+-+-', 'i', '+b ' + '*' * 40, '+lk 5', '+kl K',
                   '+q bob -q bob', '+I é!*@*', '+b :', '+o bob carol', '+l 5 6', '+b-e+I m m m']:
            L.append(f'MODE {c} {ms}')
    L += ['TOPIC', 'INVITE', 'INVITE bob', 'MODE', 'MODE alice', 'MODE alice +iwoOr', 'MODE alice -iwoOr', 'MODE alice +z', 'MODE alice i', 'MODE alice +i x', 'MODE bob +i', 'MODE dave', 'MODE alice +', 'MODE alice -+-+']
    for t in ['#x', '&y', 'bob', 'alice', 'dave', '#nochan', '@#x', '+#x', '~&@%+#x', '&&y', '@', '#', '&', '@@', '~#', '%&', 'bob,bob', '#x,#x,@#x', ',', 'bob,', '@+&y', '+', '&&', '&#x', '#x,&y,bob,dave']:
        L += [f'PRIVMSG {t} :hi', f'NOTICE {t} :hi', f'PRIVMSG {t} :', f'PRIVMSG {t} é']
    L += ['PRIVMSG', 'PRIVMSG bob', 'NOTICE', 'NOTICE bob', 'PRIVMSG :x', 'PRIVMSG bob :' + 'x' * 500]
    for m in M + ['R?al*', 'R?*', '*?al bob', '?éal*', 'Ré?l*', 'R??al*', '*é?', '*?']:     # bob's realname is 'Réal bob' (make_cases): '?' against a multi-byte character of the text
        L += [f'WHO {m}', f'WHOIS {m}', f'WHOIS {m},{m}']
    L += ['WHO', 'WHOIS', 'WHOIS bob', 'WHOIS srv.x bob', 'WHOIS bob,dave,alice', 'WHOWAS', 'WHOWAS bob', 'WHOWAS oldnick', 'WHOWAS bob 0', 'WHOWAS bob 1', 'WHOWAS bob ' + big, 'WHOWAS bob ' + over, 'WHOWAS bob x',
          'WHOWAS bob -1', 'WHOWAS oldnick 1', 'WHOWAS oldnick 2', 'WHOWAS oldnick 3', 'WHOWAS oldnick 0', 'WHOWAS oldnick ' + big, 'WHOWAS oldnick,bob 9', 'WHOWAS bob 1 srv.x', 'ISON', 'ISON bob', 'ISON ' + ' '.join(['bob'] * 25), 'USERHOST', 'USERHOST bob alice dave', 'USERHOST ' + ' '.join(['n%d' % i for i in range(25)]), 'USERHOST #x']
    L += ['NICK', 'NICK zed', 'NICK bob', 'NICK alice', 'NICK #x', 'NICK a.b', 'NICK é', 'NICK :a b', 'NICK ' + 'n' * 300, 'USER', 'USER a b c d', 'USER a b c', 'PASS', 'PASS x', 'CAP', 'CAP LS', 'CAP LS 302', 'CAP LS 301',
          'CAP LS x', 'CAP LS ' + big, 'CAP REQ', 'CAP REQ :multi-prefix', 'CAP REQ :a b', 'CAP REQ :', 'CAP END', 'CAP LIST', 'CAP FOO', 'AUTHENTICATE', 'AUTHENTICATE PLAIN']
    L += ['PING', 'PING t', 'PING :a b', 'PONG', 'PONG t', 'OPER', 'OPER a', 'OPER opname goodpw', 'OPER opname x', 'OPER #x y', 'QUIT', 'QUIT :bye', 'AWAY', 'AWAY :', 'AWAY :gone', 'AWAY é']
    L += ['KILL', 'KILL bob', 'KILL bob :x', 'KILL dave :x', 'KILL alice :x', 'KILL #x :x', 'DIE', 'DIE :x', 'SQUIT', 'SQUIT irc.irc', 'SQUIT irc.irc :x', 'SQUIT a.b :x', 'SQUIT x :x', 'WALLOPS', 'WALLOPS :x', 'WALLOPS x',
          'REHASH', 'RESTART', 'LUSERS', 'LUSERS x', 'MOTD', 'MOTD srv.x', 'MOTD x', 'MOTD *', 'VERSION', 'VERSION srv.x', 'ADMIN', 'ADMIN x*', 'TIME', 'TIME srv.x', 'TIME x', 'INFO', 'HELP', 'HELP MAIN', 'HELP COMMANDS',
          'HELP x', 'LINKS', 'LINKS x*', 'LINKS srv.x x*', 'LINKS a b c', 'CONNECT', 'CONNECT a.b', 'CONNECT a.b 6667', 'CONNECT a.b x', 'CONNECT a.b 65536', 'CONNECT a.b 1 c.d', 'CONNECT ab',
          'STATS', 'STATS u', 'STATS m', 'STATS x', 'STATS uu', 'STATS u srv.x', 'STATS é', 'STATS l', 'STATS :']
    L += ['', ' ', ':', ': ', ':src', ':src ', ':a@b!c PRIVMSG bob :x', ':alice PRIVMSG bob :x', ':bob!x@y QUIT', 'FOO', 'foo bar', 'privmsg bob :lower', 'PrIvMsG bob :mixed', '  PRIVMSG   bob   :spaced  ', '\tPRIVMSG bob :tab',
          'PRIVMSG\tbob :x', 'é', 'ééé ééé', ':: ::', 'PRIVMSG bob ::', 'PRIVMSG a:b :x', 'NICK x:y', '1 2 3', '001 alice :x', 'JOIN #x :', 'JOIN :#x', 'MODE #x :+i', 'MODE :#x +i']
    seen = set(); out = []
    for l in L:
        if l not in seen:
            seen.add(l); out.append(l)
    if tier == 'quick':
        return out
    return out

# ------------------------------------------------------------------------------------------ the pure layer on symbolic bytes
@pure('parse')
def p_parse(prog, case, budget):
    """Message::from_shared_str + Command::from_message on "<verb> " + n symbolic bytes: no panic"""
    st = Stats(); findings = []; samples = []; nontriv = [0]
    verb, n, alpha = case['verb'], case['n'], case['alpha']
    bs = [z3.BitVec(f'b{i}', 8) for i in range(n)]
    pre = list((verb + ' ').encode()) if verb else []
    fsh = prog.resolve_crate_fn('command::Message::from_shared_str'); fmsg = prog.resolve_crate_fn('command::Command::from_message')
    def run(M):
        M.assume(utf8_valid_constraint(bs))
        for b in bs:
            M.assume(b != 10); M.assume(b != 13)
            if alpha == 'ascii': M.assume(z3.ULT(b, 128))
        if alpha == 'utf8' and bs: M.assume(z3.Or([z3.UGE(b, 128) for b in bs]))
        line = Str(pre + bs)
        r = M.run_fn(fsh, [line])
        if r.variant == 0:
            return M.run_fn(fmsg, [Ref(Cell(r.fields[0]))])
        return r
    def on(r):
        if r.kind == 'panic':
            md = model_of(r.M)
            if md is None: return
            wb = bytes(pre) + model_bytes(md, bs)
            findings.append(dict(kind='panic', site='parser: ' + span_text(prog, r.value.site), what=r.value.msg, predicate='parser-panic',
                                 witness=dict(line=wb.hex(), profile=prog.profile)))
        elif r.kind == 'ok':
            nontriv[0] += 1
            if len(samples) < 1:
                md = model_of(r.M)
                if md is not None: samples.append(dict(function='from_shared_str+from_message', line=(bytes(pre) + model_bytes(md, bs)).decode('utf-8', 'replace'), outcome='Ok' if r.value.variant == 0 else 'Err'))
    explore(prog, run, on, stats=st, prefix=case.get('prefix'), timeout_ms=budget['solver_ms'], max_steps=budget['steps'], max_paths=budget['paths'],
            deadline=(time.time() + budget['case_s']) if budget.get('case_s') else None)
    return dict(stats=st, findings=findings, samples=samples, nontrivial=nontriv[0], case=case['name'])

@pure('fn1')
def p_fn1(prog, case, budget):
    """a one-string crate function on n symbolic bytes: no panic"""
    st = Stats(); findings = []; samples = []; nontriv = [0]
    fn, n = prog.resolve_crate_fn(case['fn']), case['n']
    bs = [z3.BitVec(f'b{i}', 8) for i in range(n)]
    def run(M):
        M.assume(utf8_valid_constraint(bs))
        args = [Str(bs)]
        if case.get('err_arg'): args.append(Adt('MessageError', 0, []))
        return M.run_fn(fn, args)
    def on(r):
        if r.kind == 'panic':
            md = model_of(r.M)
            if md is None: return
            findings.append(dict(kind='panic', site=case['fn'] + ': ' + span_text(prog, r.value.site), what=r.value.msg, predicate='pure-panic',
                                 witness=dict(fn=case['fn'], arg=model_bytes(md, bs).hex(), profile=prog.profile)))
        elif r.kind == 'ok': nontriv[0] += 1
    explore(prog, run, on, stats=st, prefix=case.get('prefix'), timeout_ms=budget['solver_ms'], max_steps=budget['steps'], max_paths=budget['paths'],
            deadline=(time.time() + budget['case_s']) if budget.get('case_s') else None)
    return dict(stats=st, findings=findings, samples=samples, nontrivial=nontriv[0], case=case['name'])

VERBS = ['CAP', 'AUTHENTICATE', 'PASS', 'NICK', 'USER', 'PING', 'PONG', 'OPER', 'QUIT', 'JOIN', 'PART', 'TOPIC', 'NAMES', 'LIST', 'INVITE', 'KICK', 'MOTD', 'VERSION', 'ADMIN', 'CONNECT', 'LUSERS',
         'TIME', 'STATS', 'LINKS', 'HELP', 'INFO', 'MODE', 'PRIVMSG', 'NOTICE', 'WHO', 'WHOIS', 'WHOWAS', 'KILL', 'REHASH', 'RESTART', 'SQUIT', 'AWAY', 'USERHOST', 'WALLOPS', 'ISON', 'DIE']

def make_cases(tier, profile):
    cases = []
    spec = dict(sym_caps=True, sym_max_joins=True, sym_topic=True, sym_key=True, sym_limit=True, sym_lists=True, sym_flags=True, sym_ranks=True, sym_invites=True, sym_away=True, sym_modes=True,
                sym_history=True, plain_chans=['&y'], nicks=['alice', 'bob', 'carol'], operators=[('opname', 'goodpw', None)], realnames={'bob': 'Réal bob'})
    from mirsym.world import RANKS, UMODES
    # quick: existence of #x, membership of the actor and of one other user, the actor's own rank flags and operator flag, its invitation,
    # key, limit, max_joins, one ban, +i +m +s are symbolic; everything else has its default.  thorough: additionally the actor's protected/voice flags (more did not finish within 40 minutes).
    pq = {}
    if True:
        spec = dict(spec, sym_caps=False, sym_topic=False, sym_away=False, sym_history=False)
        pq.update({f'{r}_{n}_#x': False for n in ('bob', 'carol') for r in RANKS})
        pq.update({f'mem_carol_#x': False, 'mem_carol_&y': False})
        pq.update({f'umode_{m}_{n}': False for n in ('bob', 'carol') for m in UMODES})
        pq.update({f'umode_{m}_alice': False for m in ('invisible', 'wallops')})
        pq.update({'inv_bob_#x': False, 'inv_carol_#x': False, 'ban_#x_1': False, 'exc_#x_0': False, 'exc_#x_1': False, 'invex_#x_0': False, 'invex_#x_1': False,
                   'protected_topic_#x': False, 'no_external_messages_#x': False, 'protected_alice_#x': False, 'voice_alice_#x': False})
    if tier != 'quick':
        # thorough: more of the world is free (the fully symbolic world did not finish in reasonable time for ~250 lines)
        for k in ('protected_alice_#x', 'voice_alice_#x'): pq.pop(k, None)
    for l in lines_for(tier):
        cases.append(dict(name=l[:60], line=l, judges=['no_panic', 'keeps_serving'], spec=dict(spec, sym_history=True) if l.upper().startswith('WHOWAS') else spec, partial0=pq))
        cases.append(dict(name=l[:60] + ' [unregistered]', line=l, judges=['no_panic'], spec=dict(spec, sym_ranks=False, sym_lists=False, sym_flags=False, sym_modes=False),
                          conn=dict(registered=False, nick='dave')))
    # over-long line, stream error
    cases.append(dict(name='over-long line', line='', item=('toolong',), judges=['no_panic', 'keeps_serving'], spec=spec, partial0=pq))
    # pure layer
    nq = 3 if tier == 'quick' else 4
    for v in VERBS + ['', 'FOO']:
        for n in range(0, nq + 1):
            cases.append(dict(name=f'parse "{v} "+{n} bytes', pure='parse', verb=v, n=n, alpha='ascii'))
        cases.append(dict(name=f'parse "{v} "+3 bytes utf8', pure='parse', verb=v, n=3, alpha='utf8'))
    for fn, err in [('utils::validate_source', 0), ('utils::validate_username', 0), ('utils::validate_channel', 0), ('utils::validate_prefixed_channel', 1), ('utils::validate_server', 1),
                    ('utils::validate_server_mask', 1), ('utils::normalize_sourcemask', 0), ('state::structs::get_privmsg_target_type', 0), ('utils::validate_password_hash', 0)]:
        for n in range(0, (5 if tier == 'quick' else 6) + 1):
            cases.append(dict(name=f'{fn} on {n} bytes', pure='fn1', fn=fn, n=n, err_arg=err))
    return cases

BOUNDS = dict(quick='existence of #x, membership of the actor and one other user, the actor\'s founder/operator/half-operator flags and operator mode, its invitation, key, 64-bit limit and max_joins, one ban mask, +i +m +s symbolic; thorough: additionally protected/voice of the actor', universe='registered actor in a symbolic world (one peer with a multi-byte realname, own rank flags, memberships of everybody, flags, key, 64-bit limit and max_joins, lists, invitations, away, all user modes, WHOWAS history) and an unregistered connection',
              lines='about 900 concrete lines: every verb with every arity, existing / unknown / repeated / own / empty / 300-500 byte names, multi-byte text, wildcard-heavy masks, numeric extremes (0, 2^64-1, 2^64, -1, non-digits), sign-switching mode strings, comma lists with repeats, prefixes, odd spacing and sources',
              pure_layer='from_shared_str + from_message on "<VERB> " followed by up to 3 (4) fully symbolic bytes (ASCII and UTF-8) for all 41 verbs; validate_*, normalize_sourcemask, get_privmsg_target_type, validate_password_hash on up to 5 (6) symbolic bytes',
              outside='sequences of lines beyond one step from an Inv-state (covered inductively through Inv); lines longer than 500 bytes except the over-long event; memory exhaustion')

def confirm(run, cands):
    from mirsym import ircreplay
    from mirsym.checklib import Finding
    sock = [f for f in cands if 'world' in f['witness']]
    ircreplay.confirm_findings(run, sock)
    rest = [f for f in cands if 'world' not in f['witness']]
    if rest:
        reqs = []
        for f in rest:
            w = f['witness']
            if 'line' in w: reqs.append(('from_message', [bytes.fromhex(w['line'])]))
            else: reqs.append((w['fn'].split('::')[-1], [bytes.fromhex(w['arg'])]))
        for prof, rel in (('dev', False), ('rel', True)):
            idx = [i for i, f in enumerate(rest) if f['witness'].get('profile') == prof]
            if not idx: continue
            outs = run.native_calls([reqs[i] for i in idx], release=rel)
            for i, (status, payload) in zip(idx, outs):
                f = rest[i]
                fi = Finding(PROP, f['kind'], f['site'], f['what'], f['witness'], role=dict(predicate=f['predicate']), replay=dict(function=reqs[i][0], args=[a.hex() for a in reqs[i][1]], profile=prof))
                fi.confirmed = (status == 'panic'); fi.native = status + ': ' + payload.decode('utf-8', 'replace')
                run.add_finding(fi)

if __name__ == '__main__':
    run_property(PROP, sys.argv[1], int(sys.argv[2]), make_cases, BOUNDS,
                 ['a session ends only by QUIT, a failed password, KILL/DIE/SQUIT by an operator, ping timeout, EOF or a stream error'], confirm=confirm)
