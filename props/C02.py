"""C02  One owner per nickname; a connection only ever acts as itself.  (step form; the interleaving form is part of C18)"""
import sys
from props.common import run_property
import props.reg, props.life, props.C03  # noqa

PROP = 'C02'

def make_cases(tier, profile):
    cases = []
    base = dict(sym_caps=False, sym_max_joins=False, sym_topic=False, sym_key=False, sym_limit=False, sym_lists=False, sym_flags=False, sym_ranks=True, sym_invites=False,
                sym_away=False, sym_modes=True, sym_users=True, plain_chans=['&y'], nicks=['alice', 'bob', 'carol'], operators=[('opname', 'goodpw', None)])
    J = ['no_panic', 'inv', 'ownership']
    # a connection that claimed (or was refused) a nick that meanwhile belongs to a registered user: whatever it sends and however it ends
    recs = [dict(nick='bob'), dict(nick='bob', name='dave', caps_negotation=True), dict(nick='bob', password='badpw'), dict(), dict(nick='dave'), dict(nick='dave', name='dave', caps_negotation=True)]
    lines = ['QUIT', 'USER dave 0 * :Real', 'CAP END', 'NICK bob', 'NICK carol', 'NICK zed', 'PASS x', 'PRIVMSG alice :spoof', 'JOIN #x', 'MODE bob +i', 'KILL alice :x', 'NICK alice', 'AWAY :x', 'PART #x', 'OPER opname goodpw']
    for rc in recs:
        for l in lines:
            cases.append(dict(name=f'{l} [record {sorted(rc.items())}]', line=l, judges=J + ['registration'] if l.split()[0] in ('QUIT', 'USER', 'CAP', 'NICK', 'PASS') else J,
                              spec=base, conn=dict(registered=False, **rc), then=['remove_user']))
        cases.append(dict(name=f'socket closed [record {sorted(rc.items())}]', line='', item=('eof',), judges=J, spec=base, conn=dict(registered=False, **rc), then=['remove_user']))
    # with a server password: a refused registration (464) must leave no user and no authentication behind
    for rc, l in [(dict(nick='dave', password='badpw'), 'USER dave 0 * :Real'), (dict(nick='bob', password='goodpw'), 'USER dave 0 * :Real'), (dict(name='dave'), 'NICK bob')]:
        cases.append(dict(name=f'{l} [record {sorted(rc.items())}] [server password]', line=l, judges=J + ['registration'], spec=dict(base, password='goodpw'), conn=dict(registered=False, **rc), then=['remove_user']))
    # a user declared in the configuration registers under a nick that another connection took meanwhile: refused like anybody else
    for cu, rc in [([('cfguser', 'cfgnick', None, None)], dict(nick='bob')), ([('cfguser', 'cfgnick', 'userpw', None)], dict(nick='bob', password='userpw')),
                   ([('cfguser', 'cfgnick', None, 'bob!*@*')], dict(nick='bob'))]:
        cases.append(dict(name=f'USER cfguser 0 * :Real [record {sorted(rc.items())}] [configured user {cu[0][2:]}]', line='USER cfguser 0 * :Real', judges=J + ['registration'],
                          spec=dict(base, cfg_users=cu), conn=dict(registered=False, **rc), then=['remove_user']))
    # registered connections act as themselves: a registered user's NICK to another user's nick is refused (C15 judges the rename itself)
    for l in ['NICK bob', 'NICK carol']:
        cases.append(dict(name=l + ' [registered alice]', line=l, judges=['no_panic', 'inv', 'nick'], spec=base))
    return cases

BOUNDS = dict(universe='a second connection B with every kind of record (fresh, nick claimed - also one that now belongs to a registered user -, half registered, refused once) next to 3 users whose registration, modes, memberships and ranks are symbolic',
              steps='any registration command or ordinary command by B, B\'s QUIT / EOF, each followed by the teardown of B (MainState::remove_user); registered NICK onto a taken nickname',
              outside='interleavings at await points between two registering connections (C18 explores them); more than one rival connection at a time')

if __name__ == '__main__':
    run_property(PROP, sys.argv[1], int(sys.argv[2]), make_cases, BOUNDS,
                 ['ownership invariant I8: an authenticated connection owns users[nick] (its queue is that user\'s sender); an unauthenticated connection owns nothing'])
