"""C15  A nick change moves the whole identity and nothing else."""
import sys
from props.common import run_property
import props.life  # noqa

PROP = 'C15'

def make_cases(tier, profile):
    J = ['no_panic', 'inv', 'nick']
    spec = dict(sym_caps=False, sym_max_joins=False, sym_topic=False, sym_key=False, sym_limit=False, sym_lists=False, sym_users=True,
                plain_chans=['&y'] if tier == 'quick' else [], nicks=['alice', 'bob', 'carol'])
    news = ['zed', 'alice', 'bob', '#bad', 'a.b', 'x:y', 'Alice', '.zed', ',zed', '::zed']
    if tier != 'quick': news += ['carol', 'zed,', '&n', 'é']
    cases = []
    for n in news:
        cases.append(dict(name='NICK ' + n, line='NICK ' + n, judges=J, spec=spec, split=['mem_alice_#x', 'mem_alice_&y', 'founder_alice_#x', 'operator_alice_#x'] + ([] if tier == 'quick' else ['voice_alice_#x', 'reg_bob', 'reg_carol', 'founder_alice_&y'])))
    cases.append(dict(name='NICK :zed two', line='NICK :zed two', judges=['no_panic', 'inv'], spec=spec))
    return cases

BOUNDS = dict(universe='the renaming user with any memberships, ranks, modes (+i +o +O +r +w), away, invitations; 2 other users whose registration is symbolic; 2 channels',
              nicknames='free, own, taken (registered or not), invalid (#, ., :), differing only in case',
              outside='nicknames claimed by connections that have not completed registration are treated as free (they are no users); repeated renames are covered inductively')

if __name__ == '__main__':
    run_property(PROP, sys.argv[1], int(sys.argv[2]), make_cases, BOUNDS,
                 ['the NICK line may be announced to more users than the channel peers (only "at least the peers and the user itself" is required)'])
