"""C04  Channel membership is one consistent relation that follows the history."""
import sys
from props.common import run_property
import props.life, props.C07, props.C09  # noqa: judges

PROP = 'C04'

def make_cases(tier, profile):
    cases = []
    base = dict(sym_caps=False, sym_max_joins=False, sym_topic=False, sym_key=False, sym_limit=False, sym_lists=False, sym_modes=False, sym_away=False,
                plain_chans=['&y'], nicks=['alice', 'bob', 'carol'])
    sp = ['mem_alice_#x', 'mem_bob_#x', 'mem_carol_#x']
    for l in ['PART #x', 'PART #x :bye for now', 'PART #x,&y', 'PART #nochan', 'PART &y,#x :x']:
        cases.append(dict(name=l, line=l, judges=['no_panic', 'inv', 'part'], spec=base, split=sp))
    # every other membership mutator preserves the relation (their own oracles: C07 JOIN, C09 KICK, C15 NICK, C06 endings)
    for l in ['JOIN #x', 'JOIN #new', 'JOIN #x,&y', 'KICK #x bob', 'KICK #x bob,carol', 'KICK #x alice', 'KICK #x bob,alice', 'KICK #x carol,bob,alice', 'NICK zed', 'NICK bob']:
        own = {'JOIN': 'join', 'KICK': 'kick', 'NICK': 'nick'}[l.split()[0]]
        rk = dict(sym_ranks=True) if own == 'kick' else {}
        cases.append(dict(name=l + ' (Inv + announcements)', line=l, judges=['no_panic', 'inv', own], spec=dict(base, sym_invites=True, **rk), split=sp))
    cases.append(dict(name='QUIT + teardown (Inv)', line='QUIT', then=['remove_user'], judges=['no_panic', 'inv'], spec=base, split=sp))
    # the three reader views agree with the relation
    vspec = dict(base, sym_modes=True, sym_caps=True)
    from mirsym.world import RANKS
    fixed_ranks = {f'{r}_{n}_#x': False for n in ['alice', 'carol'] for r in RANKS}
    fixed_ranks.update({f'umode_{m}_{n}': False for n in ['alice', 'bob', 'carol'] for m in ('oper', 'local_oper', 'registered', 'wallops')})
    for l in ['NAMES #x', 'NAMES #x,&y', 'WHO #x', 'WHOIS bob', 'WHOIS alice', 'NAMES', 'WHO &y']:
        cases.append(dict(name=l, line=l, judges=['no_panic', 'view_names', 'view_who', 'view_whois'], spec=vspec, split=sp + ['founder_bob_#x', 'protected_bob_#x'], partial0=fixed_ranks))
    if True:
        # users on several channels of which the observer shares only some: both channels with symbolic membership (ranks and flags of &y fixed;
        # thorough: operator and voice of bob on #x symbolic as well, more query forms)
        from mirsym.world import CHFLAGS
        vn = vspec['nicks']
        two = dict(fixed_ranks); two.update({f'{r}_{n}_&y': False for n in vn for r in RANKS}); two.update({'preconf_&y': False, 'preconf_#x': False})
        two.update({f'{f}_&y': False for f in CHFLAGS})
        if tier == 'quick': two.update({f'{r}_bob_#x': False for r in RANKS})
        else: two.update({f'{r}_bob_#x': False for r in RANKS if r not in ('operator', 'voice')})
        for l in (['WHOIS bob', 'WHO bob', 'NAMES &y,#x'] if tier == 'quick' else ['WHOIS bob', 'WHO bob', 'NAMES &y,#x', 'WHOIS b*', 'WHO *', 'NAMES', 'WHO &y', 'WHOIS bob,carol']):
            cases.append(dict(name=l + ' [two symbolic channels]', line=l, judges=['no_panic', 'view_names', 'view_who', 'view_whois'], spec=dict(vspec, plain_chans=[]),
                              split=['mem_alice_#x', 'mem_bob_#x', 'mem_alice_&y', 'mem_bob_&y'], partial0=two))
    return cases

BOUNDS = dict(universe='3 users, 2 channels; memberships and all rank flags symbolic (quick: on #x; &y carries membership of the actor only); for the views also +i, +s and multi-prefix (quick: rank flags of one member symbolic, the others plain members)',
              commands='PART (single, list, reason, unknown), JOIN/KICK/NICK/QUIT as Inv-preserving steps, NAMES/WHO/WHOIS as views',
              outside='rosters hidden by +s/+i from outsiders (C12); departures by disconnect are not announced by this server (as the statement says)')

if __name__ == '__main__':
    run_property(PROP, sys.argv[1], int(sys.argv[2]), make_cases, BOUNDS,
                 ['Inv clauses I1-I4 (membership symmetry, rank-list mirror, non-empty non-preconfigured channels) are assumed before and proved after each mutating step'])
