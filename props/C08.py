"""C08  Channel modes change only by members of sufficient rank, exactly as announced."""
import sys
import z3
from mirsym.steplib import judge
from mirsym.post import And, Or, Not, Iff, Implies, opt_cond, BV, L
from mirsym.values import *
from props.oracles import *
from props.common import run_property
from props.C14 import py_normalize

PROP = 'C08'
FLAGL = {'i': 'invite_only', 'm': 'moderated', 's': 'secret', 't': 'protected_topic', 'n': 'no_external_messages'}
RANKL = {'q': 'founder', 'a': 'protected', 'o': 'operator', 'h': 'half_oper', 'v': 'voice'}
LISTL = {'b': 'ban', 'e': 'exception', 'I': 'invex'}

def ite(c, a, b):
    """boolean if-then-else on bool|z3"""
    if isinstance(c, bool): return a if c else b
    return Or(And(c, a), And(Not(c), b))

def parse_modes(tokens):
    """[(sign, letter, arg|None)] from MODE parameters after the target, letters consume arguments in order per group"""
    out = []
    i = 0
    while i < len(tokens):
        ms = tokens[i]; i += 1
        args = []
        while i < len(tokens) and not tokens[i].startswith(('+', '-')):
            args.append(tokens[i]); i += 1
        sign = True
        ai = 0
        for ch in ms:
            if ch == '+': sign = True; continue
            if ch == '-': sign = False; continue
            need = ch in 'beIovhqa' or (ch in 'lk' and sign)
            arg = None
            if need and ai < len(args):
                arg = args[ai]; ai += 1
            out.append((sign, ch, arg))
    return out

@judge('chanmode')
def j_chanmode(ctx):
    r = ref_parse(ctx.line.encode())
    if r[1].upper() != b'MODE' or ctx.outcome != 'ok': return []
    ps = [p.decode() for p in r[2]]
    c = ps[0]
    if not c.startswith(('#', '&')): return []
    changes = parse_modes(ps[1:])
    pre, post, a, M, w = ctx.pre, ctx.post, ctx.actor, ctx.M, ctx.w
    nicks = w.spec.nicks
    srv = server(ctx)
    exists, on = pre.chan_live(c), pre.member(a, c)
    act = And(exists, on)
    obs = []
    if c not in pre.chans:
        obs += delivery_obligations('mode:reply', ctx.written, [('403', True, numeric_pred(srv, 403, a, c))])
        obs += frame_obligations(ctx, lambda k: False, 'mode:frame')
        return obs
    ch = pre.chans[c]
    P = dict(q=pre.rank(a, c, 'founder'), a=r_protected(pre, a, c), o=r_operator(pre, a, c), h=r_operator(pre, a, c))
    half = r_halfop(pre, a, c)
    def priv(letter):
        return P.get(letter, half)
    # abstract state
    flags = {f: ch['flags'][f] for f in CHFLAGS}
    haskey = opt_cond(ch['key']); keyval = None          # None = the old value
    haslim = opt_cond(ch['limit']); limval = ch['limit'].fields[0] if ch['limit'].fields else 0
    lists = {k: dict(ch[k]) for k in ('ban', 'exception', 'invex')}
    rank = {(n, rk): pre.rank(n, c, rk) for n in ch['members'] for rk in RANKS}
    applied = []          # (cond, sign, letter, arg) announced changes
    need482 = []
    need441 = []
    queries = []
    for sign, letter, arg in changes:
        p = priv(letter)
        if letter in FLAGL:
            f = FLAGL[letter]
            flags[f] = ite(p, sign, flags[f])
            applied.append((p, sign, letter, None)); need482.append(Not(p))
        elif letter == 'k':
            haskey = ite(p, sign, haskey)
            if sign: keyval = (p, arg, keyval)
            applied.append((p, sign, 'k', arg if sign else None)); need482.append(Not(p))
        elif letter == 'l':
            haslim = ite(p, sign, haslim)
            if sign: limval = (p, int(arg), limval)
            applied.append((p, sign, 'l', arg if sign else None)); need482.append(Not(p))
        elif letter in LISTL:
            if arg is None:
                queries.append(letter); continue
            m = py_normalize(arg)
            k = LISTL[letter]
            old = lists[k].get(m, False)
            lists[k][m] = ite(p, sign, old)
            applied.append((p, sign, letter, m)); need482.append(Not(p))
        elif letter in RANKL:
            rk = RANKL[letter]
            ismem = pre.member(arg, c)
            need482.append(Not(p))
            need441.append((arg, Not(ismem)))
            if arg in ch['members']:
                rank[(arg, rk)] = ite(And(p, ismem), sign, rank[(arg, rk)])
            applied.append((And(p, ismem), sign, letter, arg))
    # ---- post-state equals the abstract state (when the command acts at all)
    pc = post.chans[c]
    obs.append(('mode:channel', f'MODE never creates or removes {c}', Iff(post.chan_live(c), exists)))
    for f in CHFLAGS:
        obs.append(('mode:flag', f'MODE: flag {f} of {c} afterwards', Implies(exists, Iff(pc['flags'][f], ite(act, flags[f], ch['flags'][f])))))
    obs.append(('mode:key', f'MODE: key presence of {c} afterwards', Implies(exists, Iff(opt_cond(pc['key']), ite(act, haskey, opt_cond(ch['key']))))))
    obs.append(('mode:limit', f'MODE: limit presence of {c} afterwards', Implies(exists, Iff(opt_cond(pc['limit']), ite(act, haslim, opt_cond(ch['limit']))))))
    kv = keyval
    while kv is not None:
        p_, val, rest = kv
        if pc['key'].fields:
            later = _later_set(changes, 'k')
            if later == 1:
                obs.append(('mode:key', f'MODE: key value of {c} is the one set', Implies(And(act, p_, opt_cond(pc['key'])), M.values_equal(pc['key'].fields[0], mkstr(val)))))
        kv = rest
    lv = limval
    if isinstance(lv, tuple) and _later_set(changes, 'l') == 1 and pc['limit'].fields:
        p_, val, rest = lv
        obs.append(('mode:limit', f'MODE: limit value of {c} is the one set', Implies(And(act, p_, opt_cond(pc['limit'])), BV(pc['limit'].fields[0]) == BV(val))))
    for k, pk in (('ban', 'ban'), ('exception', 'exception'), ('invex', 'invex')):
        keys = set(lists[k]) | set(pc[pk])
        for m in sorted(keys):
            want = ite(act, lists[k].get(m, False), ch[k].get(m, False))
            obs.append(('mode:list', f'MODE: {k} list of {c} holds {m} afterwards', Implies(exists, Iff(pc[pk].get(m, False), want))))
    for n in ch['members']:
        obs.append(('mode:membership', f'MODE does not change membership of {n}', Iff(post.member(n, c), pre.member(n, c))))
        for rk in RANKS:
            want = ite(act, rank[(n, rk)], pre.rank(n, c, rk))
            obs.append(('mode:rank', f'MODE: rank {rk} of {n} on {c} afterwards', Implies(pre.member(n, c), Iff(post.rank(n, c, rk), want))))
    # ---- announcement: one MODE line to every member listing exactly the applied changes
    src = src_of(ctx, a)
    any_applied = Or(*[And(act, cnd) for cnd, _, _, _ in applied]) if applied else False
    def is_mode_line(l):
        if not is_concrete(l): return False
        rr = ref_parse(l)
        return rr is not None and rr[0] == src.encode() and rr[1] == b'MODE' and rr[2] and rr[2][0] == c.encode()
    for n in nicks:
        q = ctx.queues.get(n, [])
        ml = [l for l in q if is_mode_line(l)]
        obs.append(('mode:announce', f'MODE: announced to member {n} exactly when something was applied', Iff(len(ml) == 1, And(any_applied, pre.member(n, c)))))
        obs.append(('mode:announce', f'MODE: at most one announcement to {n}', len(ml) <= 1))
        other = [l for l in q if not is_mode_line(l)]
        if other: obs.append(('mode:unexpected', f'MODE: unexpected line to {n}: {buf_text(other[0])!r}', False))
        if ml:
            toks = [t.decode() for t in ref_parse(ml[0])[2][1:]]
            ann = parse_modes(toks)
            # every announced change is an applied one, and every applied one is announced
            ann_set = {}
            for sg, lt, ar in ann:
                key = (sg, lt, ar if ar is None or lt not in LISTL else ar)
                ann_set[key] = ann_set.get(key, 0) + 1
            exp = {}
            for cnd, sg, lt, ar in applied:
                key = (sg, lt, ar)
                exp[key] = Or(exp.get(key, False), And(act, cnd))
            for key in set(ann_set) | set(exp):
                obs.append(('mode:announce-content', f'MODE: announcement lists {"+" if key[0] else "-"}{key[1]} {key[2] or ""} exactly when applied',
                            Iff(key in ann_set, exp.get(key, False))))
    # ---- replies
    n482 = len([l for l in ctx.written if numeric_pred(srv, 482, a, c)(l)])
    lacking = Or(*[And(act, x) for x in need482]) if need482 else False
    obs.append(('mode:reply', 'MODE: 482 exactly when a requested change lacks the rank', Iff(n482 >= 1, lacking)))
    n442 = len([l for l in ctx.written if numeric_pred(srv, 442, a, c)(l)])
    obs.append(('mode:reply', 'MODE: 442 exactly when the actor is not on the channel', Iff(n442 == 1, And(exists, Not(on)))))
    n403 = len([l for l in ctx.written if numeric_pred(srv, 403, a, c)(l)])
    obs.append(('mode:reply', 'MODE: 403 exactly when the channel does not exist', Iff(n403 == 1, Not(exists))))
    for arg, cnd in need441:
        k441 = len([l for l in ctx.written if numeric_pred(srv, 441, a, arg, c)(l)])
        obs.append(('mode:reply', f'MODE: 441 for {arg} exactly when it is not on the channel', Iff(k441 >= 1, And(act, cnd))))
    if not changes and len(ps) == 1:
        n324 = len([l for l in ctx.written if numeric_pred(srv, 324, a, c)(l)])
        obs.append(('mode:query', 'MODE query answers 324 for a member', Iff(n324 == 1, act)))
        # what the reply shows: every letter stands for a set mode, parameters follow in the order of the letters that take one
        for l in [l for l in ctx.written if numeric_pred(srv, 324, a, c)(l)][:1]:
            toks = [[]]
            for x in l:
                if isinstance(x, int) and x == 32: toks.append([])
                else: toks[-1].append(x)
            toks = [t for t in toks if t]
            if len(toks) < 5 or not all(isinstance(x, int) for x in toks[4]): continue
            letters = bytes(toks[4]).decode('utf-8', 'replace')
            pc = pre.chans[c]
            want = {'i': 'invite_only', 'm': 'moderated', 's': 'secret', 't': 'protected_topic', 'n': 'no_external_messages'}
            for lt, fl in want.items():
                obs.append(('mode:query-content', f'MODE query shows +{lt} exactly when it is set', Iff(lt in letters[1:], pc['flags'][fl])))
            obs.append(('mode:query-content', 'MODE query shows +k exactly when a key is set', Iff('k' in letters[1:], opt_cond(pc['key']))))
            obs.append(('mode:query-content', 'MODE query shows +l exactly when a limit is set', Iff('l' in letters[1:], opt_cond(pc['limit']))))
            params = toks[5:]; i = 0
            for lt in letters[1:]:
                if lt == 'k':
                    good = i < len(params) and all(isinstance(x, int) for x in params[i]) and bytes(params[i]).decode('utf-8', 'replace') == w.spec.keys[c]
                    obs.append(('mode:query-content', 'MODE query: the parameter belonging to +k is the key', good)); i += 1
                elif lt == 'l':
                    good = i < len(params) and all((not isinstance(x, int)) or 48 <= x <= 57 for x in params[i])
                    obs.append(('mode:query-content', 'MODE query: the parameter belonging to +l is the limit (a number)', good)); i += 1
    def allow(k):
        if k[0] in ('flag', 'haskey', 'haslimit', 'ban', 'exc', 'invex') and k[1] == c: return True
        if k[0] == 'rank' and k[2] == c: return True
        return False
    obs += frame_obligations(ctx, allow, 'mode:frame')
    obs += counters_frame(ctx)
    return obs

def _later_set(changes, letter):
    return len([1 for sg, lt, ar in changes if lt == letter and sg])

def make_cases(tier, profile):
    J = ['no_panic', 'inv', 'chanmode']
    ms = ['+i', '-i', '+m', '-t', '+n', '+s', '-s', '+k K2', '-k', '+l 5', '-l', '+l 18446744073709551615', '+b bob!*@*', '-b a*!*@*', '+b carol', '+e x@y',
          '-e bob!*@*', '+I *!*@*', '-I a*!*@*', '+o bob', '-o bob', '+v bob', '-v carol', '+h carol', '-h bob', '+q bob', '-q alice', '+a bob', '-a carol', '+o dave', '+o alice', '-o alice',
          '+im-t', '+ov bob carol', '+b', '+e', '+I', '', '+kl K2 3', '+o-v bob bob', '+ib-s a!b@c',
          '-e bob', '-b bob', '-I bob', '-e bob@*', '-b bob!*', '+e bob', '+I bob!*']      # short forms that complete to the stored mask bob!*@*: removal/insertion must act on the completed mask
    if tier != 'quick':
        ms += ['+imtns', '-imtns', '+qaohv bob bob bob bob bob', '+b-b m1 m1', '+l-l 4', '+k-k K3', '-qaohv alice alice alice alice alice', '+o+h bob carol', '+beI m1 m2 m3', '+v-v+v bob bob bob']
    cases = []
    for m in ms:
        for c in (['#x'] if tier == 'quick' else ['#x', '&y']):
            line = f'MODE {c} {m}'.rstrip()
            needs_lists = any(x in m for x in 'beI')
            cases.append(dict(name=line, line=line, judges=J,
                              spec=dict(sym_modes=False, sym_away=False, sym_caps=False, sym_invites=False, sym_max_joins=False, sym_topic=False,
                                        sym_lists=needs_lists, sym_ranks=(m != ''), plain_chans=['&y'] if c == '#x' else ['#x'],
                                        nicks=['alice', 'bob', 'carol'])))
    cases.append(dict(name='MODE #nochan +i', line='MODE #nochan +i', judges=J, spec=dict(sym_modes=False, sym_away=False, sym_caps=False, sym_lists=False)))
    return cases

BOUNDS = dict(universe='3 users, one fully symbolic channel (memberships, all 5 rank flags of every member, i/m/s/t/n, key, 64-bit limit, lists over the mask menu, preconfigured bit), the other channel plain',
              commands='MODE <channel> with 1-5 mode letters from +-beIovhqalkimtns, sign switches, list queries, the query form; list masks in full and in short form (nick, nick@host, nick!user) completing to a stored mask',
              outside='mode strings longer than listed; more than 3 members; unknown letters (rejected by validation before the handler, see C13)')

if __name__ == '__main__':
    run_property(PROP, sys.argv[1], int(sys.argv[2]), make_cases, BOUNDS,
                 ['permission table of C08: q by founder, a by founder/protected, o/h by operator+, all others by half-operator+; rank letters act only on current members'])
