"""C03  Nothing works before registration; registration needs the right password."""
import sys, itertools
from props.common import run_property
import props.reg  # noqa

PROP = 'C03'
OTHER = ['JOIN #x', 'PART #x', 'PRIVMSG bob :hi', 'NOTICE bob :hi', 'TOPIC #x', 'TOPIC #x :t', 'NAMES', 'NAMES #x', 'LIST', 'INVITE bob #x', 'KICK #x bob', 'MODE #x +i', 'MODE bob',
         'WHO *', 'WHOIS bob', 'WHOWAS bob', 'OPER opname goodpw', 'KILL bob :x', 'DIE', 'SQUIT irc.irc :x', 'WALLOPS :x', 'STATS u', 'LUSERS', 'ISON bob', 'USERHOST bob', 'AWAY :x',
         'PING tok', 'PONG tok', 'MOTD', 'VERSION', 'ADMIN', 'TIME', 'INFO', 'HELP', 'LINKS', 'CONNECT a.b', 'REHASH', 'RESTART']

def make_cases(tier, profile):
    cases = []
    base = dict(sym_caps=False, sym_max_joins=False, sym_topic=False, sym_key=False, sym_limit=False, sym_lists=False, sym_flags=False, sym_ranks=False, sym_invites=False,
                sym_away=False, sym_modes=False, sym_users=True, plain_chans=['&y'], nicks=['alice', 'bob', 'carol'], operators=[('opname', 'goodpw', None)])
    # the gate, from several half-registered records
    recs = [dict(), dict(nick='dave'), dict(nick='dave', name='dave', caps_negotation=True), dict(name='dave', password='goodpw')]
    for l in (OTHER if tier != 'quick' else OTHER):
        for rc in (recs if tier != 'quick' else recs[:3:2] + [recs[1]]):
            cases.append(dict(name=f'{l} [record {sorted(rc.items())}]', line=l, judges=['no_panic', 'registration'], spec=base, conn=dict(registered=False, **rc)))
    # completion: every combination of server password / configured user (password, mask) / supplied password / record state / completing command
    cfgs = [dict(), dict(password='goodpw'),
            dict(cfg_users=[('cfguser', 'cfgnick', None, None)]), dict(cfg_users=[('cfguser', 'cfgnick', 'userpw', None)]),
            dict(cfg_users=[('cfguser', 'cfgnick', 'userpw', 'd*!*@*')]), dict(cfg_users=[('cfguser', 'cfgnick', None, 'x*!*@*')]),
            dict(password='goodpw', cfg_users=[('cfguser', 'cfgnick', 'userpw', None)]), dict(password='goodpw', cfg_users=[('cfguser', 'cfgnick', None, None)])]
    steps = []
    for pwd in (None, 'goodpw', 'userpw', 'badpw'):
        for nm in ('dave', 'cfguser'):
            steps.append((dict(nick='dave', password=pwd), f'USER {nm} 0 * :Real'))
            steps.append((dict(name=nm, password=pwd), 'NICK dave'))
            steps.append((dict(name=nm, password=pwd), 'NICK bob'))
            steps.append((dict(nick='dave', name=nm, password=pwd, caps_negotation=True), 'CAP END'))
            steps.append((dict(nick='bob', name=nm, password=pwd, caps_negotation=True), 'CAP END'))
    late = []   # records with nick and user name but unauthenticated: reachable only after a mask mismatch
    for p in ('goodpw', 'userpw', 'badpw'):
        late.append((dict(nick='dave', name='cfguser', caps_negotation=False), 'PASS ' + p))
    steps += [(dict(), 'CAP REQ :bogus'), (dict(nick='dave'), 'CAP REQ :sasl'), (dict(name='dave'), 'CAP REQ :multi-prefix bogus'), (dict(), 'CAP REQ'), (dict(nick='dave'), 'CAP REQ :'),
              (dict(nick='dave', name='dave'), 'CAP LS 302'), (dict(nick='dave'), 'CAP LS'), (dict(), 'CAP REQ :multi-prefix'), (dict(nick='dave', name='dave', caps_negotation=True), 'CAP REQ :bogus'),
              (dict(nick='dave', caps_negotation=True), 'USER dave 0 * :Real'), (dict(), 'NICK dave'), (dict(), 'USER dave 0 * :Real'), (dict(), 'PASS goodpw'), (dict(nick='dave'), 'QUIT'),
              (dict(), 'AUTHENTICATE PLAIN'), (dict(nick='dave', name='dave', caps_negotation=True), 'CAP LIST'), (dict(), 'NICK #bad'), (dict(nick='dave'), 'USER #bad 0 * :x')]
    for cfg in cfgs:
        for rc, l in steps + (late if any(u[3] == 'x*!*@*' for u in cfg.get('cfg_users', [])) else []):
            if tier == 'quick' and rc.get('password') == 'userpw' and not cfg.get('cfg_users'): continue
            cases.append(dict(name=f'{l} [record {sorted(rc.items())}] [config {sorted((k, str(v)) for k, v in cfg.items())}]', line=l, judges=['no_panic', 'inv', 'registration', 'ownership'],
                              spec=dict(base, **cfg), conn=dict(registered=False, **rc)))
    return cases

BOUNDS = dict(universe='a fresh connection whose record (nick, user name, supplied password, open capability negotiation) takes every combination; 3 registered users (registration of two symbolic)',
              configurations='server password none/set; configured user absent / without password / with password / with matching or non-matching mask; combinations',
              commands='all 38 non-registration verbs with minimal valid parameters (gate); PASS, NICK (free / taken / invalid), USER, CAP LS/REQ/END/LIST, AUTHENTICATE, QUIT as last step of every record',
              outside='argon2 itself (uninterpreted verify); sequences are covered because the connection record is the history; SASL (AUTHENTICATE is answered 421 by this server)')

if __name__ == '__main__':
    run_property(PROP, sys.argv[1], int(sys.argv[2]), make_cases, BOUNDS, ['verify(pw, hash) iff hash was generated from pw'])
