"""C06  Every way a session ends leaves no trace in the live state."""
import sys
from mirsym.steplib import setup
from mirsym.values import *
from props.common import run_property
import props.life  # noqa

PROP = 'C06'

@setup('kill_pending')
def s_kill(M, w, case, conn):
    os_ = conn['kill']
    os_.sent = True; os_.value = Tup([mkstring('bob'), mkstring('go away')])

@setup('pong_timeout_pending')
def s_tmo(M, w, case, conn):
    conn['tmo'].q.append(Tup())

def make_cases(tier, profile):
    J = ['no_panic', 'quit_flag', 'teardown', 'inv', 'slot_freed']
    spec = dict(sym_caps=False, sym_max_joins=False, sym_topic=False, sym_key=False, sym_limit=False, sym_lists=False,
                plain_chans=['&y'] if tier == 'quick' else [],
                nicks=['alice', 'bob', 'carol'] if tier == 'quick' else ['alice', 'bob', 'carol', 'erin'],
                operators=[('opname', 'goodpw', None)], sym_capneg=True)          # so that the leaving user may be an operator (any combination with +i, +w)
    split = ['mem_alice_#x', 'mem_alice_&y', 'founder_alice_#x', 'operator_alice_#x']
    if tier != 'quick': split += ['voice_alice_#x', 'founder_alice_&y', 'operator_alice_&y', 'umode_oper_alice']
    base = dict(judges=J, then=['remove_user', 'drop_conn'], spec=spec, split=split)
    cases = [dict(base, name='QUIT', line='QUIT'), dict(base, name='QUIT :bye', line='QUIT :bye for now'),
             dict(base, name='socket closed (EOF)', line='', item=('eof',)),
             dict(base, name='KILL delivered', line='', conn_setup='kill_pending'),
             dict(base, name='pong timeout fired', line='', conn_setup='pong_timeout_pending')]
    # teardown alone from any state (the loop may also be left after a fatal stream error followed by EOF)
    cases.append(dict(base, name='stream error then EOF', line='', item=('eof',), prelude=[], pre_items=[('ioerr',)]))
    return cases

BOUNDS = dict(quick='ranks symbolic on #x only (&y: membership only); thorough: both channels', universe='the leaving user with any memberships, all five ranks per channel, all user modes (+i +o +O +r +w), away, pending invitations; 2 (3) other users; 2 channels with preconfigured bit symbolic',
              endings='QUIT (with and without text), EOF, KILL delivered through the quit channel, pong timeout, stream error followed by EOF; each followed by MainState::remove_user and Drop for ConnState',
              outside='kernel/socket behaviour (mid-line closes, unread output), several sessions ending at the same instant (C18 covers interleavings)')

if __name__ == '__main__':
    run_property(PROP, sys.argv[1], int(sys.argv[2]), make_cases, BOUNDS,
                 ['a handler panic (judged by no_panic in every check) would skip teardown; tokio-util Framed ends the stream after a decode error (model)'])
