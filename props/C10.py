"""C10  Speaking restrictions (+n, +m, bans) hold and NOTICE is never answered."""
import sys
from props.common import run_property
import props.msg  # noqa
from props.C01 import make_cases as mc, BOUNDS as B1

PROP = 'C10'
def make_cases(tier, profile):
    return mc(tier, profile, judges=('no_panic', 'msg_restrict'))

BOUNDS = dict(B1)
if __name__ == '__main__':
    run_property(PROP, sys.argv[1], int(sys.argv[2]), make_cases, BOUNDS,
                 ['delivered iff (member or neither +n nor +s) and not banned-unless-excepted and (not +m or voice-or-higher); PRIVMSG refusals: one 404/403/401; NOTICE: empty reply buffer on every path'])
