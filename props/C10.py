"""C10  Speaking restrictions (+n, +m, bans) hold and NOTICE is never answered."""
import sys
from props.common import run_property
import props.msg  # noqa
from props.C01 import make_cases as mc, BOUNDS as B1

from mirsym.steplib import judge
from mirsym.post import And, Or, Not, Iff, Implies
from mirsym.values import mkstr
from props.oracles import *

PROP = 'C10'

@judge('away')
def j_away(ctx):
    """AWAY sets (replaces) resp. clears the away text that PRIVMSG senders are answered with"""
    r = ref_parse(ctx.line.encode())
    if r[1].upper() != b'AWAY' or ctx.outcome != 'ok': return []
    pre, post, a, M = ctx.pre, ctx.post, ctx.actor, ctx.M
    srv = server(ctx)
    text = r[2][0].decode() if r[2] else None          # an empty text is a text (this server marks the user away with an empty message)
    ua = post.users[a]
    obs = []
    if text is not None:
        obs.append(('away:set', 'AWAY <text>: the user is away afterwards', ua['away']))
        obs.append(('away:text', 'AWAY <text>: the stored away text is the new text (also when the user was away already)', M.values_equal(ua['away_val'].fields[0], mkstr(text))))
        obs.append(('away:reply', 'AWAY <text> is answered with 306', len([l for l in ctx.written if numeric_pred(srv, 306, a)(l)]) == 1 and len(ctx.written) == 1))
    else:
        obs.append(('away:clear', 'AWAY without text: the user is no longer away', Not(ua['away'])))
        obs.append(('away:reply', 'AWAY without text is answered with 305', len([l for l in ctx.written if numeric_pred(srv, 305, a)(l)]) == 1 and len(ctx.written) == 1))
    obs += frame_obligations(ctx, lambda k: k[0] == 'away' and k[1] == a, 'away:frame')
    for n in ctx.w.spec.nicks:
        if n != a: obs += queue_silent(ctx, [n], 'away:others')
    return obs

def make_cases(tier, profile):
    cases = mc(tier, profile, judges=('no_panic', 'msg_restrict'))
    aspec = dict(sym_caps=False, sym_max_joins=False, sym_topic=False, sym_key=False, sym_limit=False, sym_lists=False, sym_flags=False, sym_ranks=False, sym_invites=False,
                 sym_away=True, plain_chans=['#x', '&y'], nicks=['alice', 'bob', 'carol'])
    for l in ['AWAY :second text', 'AWAY :x', 'AWAY', 'AWAY :']:
        cases.append(dict(name=l, line=l, judges=['no_panic', 'inv', 'away'], spec=aspec))
    # ... and the text a PRIVMSG sender is told is the current one
    cases.append(dict(name='AWAY :second text; PRIVMSG bob :hi', actor='alice', prelude=[('bob', 'AWAY :second text')], line='PRIVMSG bob :hi', judges=['no_panic', 'away_reply'], spec=aspec))
    return cases

@judge('away_reply')
def j_away_reply(ctx):
    srv = server(ctx); a = ctx.actor
    k = [l for l in ctx.written if numeric_pred(srv, 301, a, 'bob')(l)]
    good = len(k) == 1 and is_concrete(k[0]) and ref_parse(k[0])[2][-1] == b'second text'
    return [('away:301', 'PRIVMSG to an away user is answered with its current away text', good)]

BOUNDS = dict(B1)
if __name__ == '__main__':
    run_property(PROP, sys.argv[1], int(sys.argv[2]), make_cases, BOUNDS,
                 ['delivered iff (member or neither +n nor +s) and not banned-unless-excepted and (not +m or voice-or-higher); PRIVMSG refusals: one 404/403/401; NOTICE: empty reply buffer on every path'])
