"""Oracles for registration (C03) and nickname ownership (C02)."""
import z3
from mirsym.steplib import judge, call, setup
from mirsym.post import And, Or, Not, Iff, Implies, opt_cond
from mirsym.values import *
from mirsym.world import fld
from props.oracles import *
from props.C14 import py_glob
from props.life import valid_nick

REG_VERBS = {'CAP', 'AUTHENTICATE', 'PASS', 'NICK', 'USER', 'QUIT'}

def conn_record(ctx):
    us = fld(ctx.prog, ctx.conn['cell'].v, 'user_state')
    g = lambda n: fld(ctx.prog, us, n)
    def optstr(o):
        if isinstance(o.variant, int) and o.variant == 0: return None
        return o.fields[0].py()
    return dict(nick=optstr(g('nick')), name=optstr(g('name')), password=optstr(g('password')), authenticated=g('authenticated'),
                registered=g('registered'), source=g('source').py(), caps=fld(ctx.prog, ctx.conn['cell'].v, 'caps_negotation'))

def required_password(spec, name, source):
    """-> ('mask-mismatch'|None, password or None)"""
    for u in spec.cfg_users:
        if u[0] == name:
            if u[3] is not None and not py_glob(u[3], source): return 'mask-mismatch', None
            return None, (u[2] if u[2] is not None else spec.password)
    return None, spec.password

@judge('registration')
def j_registration(ctx):
    if ctx.outcome != 'ok': return []
    r = ref_parse(ctx.line.encode())
    verb = r[1].upper().decode()
    ps = [p.decode() for p in r[2]]
    pre, post, w, spec = ctx.pre, getattr(ctx, 'mid', ctx.post), ctx.w, ctx.w.spec      # the state right after the command (before a teardown)
    srv = server(ctx)
    c0 = ctx.case['conn']
    rec = conn_record(ctx)
    obs = []
    client = c0.get('nick') or c0.get('name') or '127.0.0.1'
    regular = set(spec.nicks)
    if verb not in REG_VERBS:
        # the gate: 451 only, nothing changes, nothing is queued to anybody
        n451 = [l for l in ctx.written if numeric_pred(srv, 451, client)(l)]
        obs.append(('gate:451', f'{verb} before registration is answered with ERR_NOTREGISTERED only', len(n451) == 1 and len(ctx.written) == 1))
        obs += frame_obligations(ctx, lambda k: False, 'gate:frame')
        for n in regular: obs += queue_silent(ctx, [n], 'gate:reveals')
        obs.append(('gate:record', 'the connection record is untouched', rec['nick'] == c0.get('nick') and rec['name'] == c0.get('name') and rec['password'] == c0.get('password')))
        obs.append(('gate:auth', 'the connection is still unauthenticated', Not(rec['authenticated'])))
        return obs
    # expected record after this command's own setter
    nick, name, pw, caps = c0.get('nick'), c0.get('name'), c0.get('password'), c0.get('caps_negotation', False)
    triggers = False
    nick_refused = False
    if verb == 'PASS' and ps: pw = ps[0]; triggers = True
    elif verb == 'USER' and len(ps) >= 4:
        if valid_nick(ps[0]): name = ps[0]; triggers = True
    elif verb == 'NICK' and ps:
        if valid_nick(ps[0]):
            taken = pre.user_live(ps[0]) if ps[0] in pre.users else False
            nick_refused = taken
            triggers = 'nick'
    elif verb == 'CAP' and ps:
        sub = ps[0].upper()
        if sub in ('LS', 'REQ'): caps = True
        elif sub == 'END': caps = False; triggers = True
    if triggers == 'nick':
        newnick = ps[0]
        # NICK to a nick in use: 433, nothing else
        taken = pre.user_live(newnick) if newnick in pre.users else False
        complete_if_free = name is not None and not caps
        eff_nick = newnick
    else:
        taken_now = (pre.user_live(nick) if nick in pre.users else False) if nick else False
        taken = taken_now
        complete_if_free = bool(triggers) and nick is not None and name is not None and not caps
        eff_nick = nick
    src = ''
    if eff_nick: src += eff_nick + '!'
    if name: src += '~' + name
    src += '@127.0.0.1'
    mm, need = required_password(spec, name, src) if name else (None, None)
    good = need is None or pw == need
    # `attempt`: the registration attempt is evaluated (all parts given, negotiation closed)
    if triggers == 'nick':
        attempt = And(complete_if_free, Not(taken))
    else:
        attempt = complete_if_free
    reg_ok = And(attempt, mm is None, good, Not(taken) if triggers != 'nick' else True)
    n001 = len([l for l in ctx.written if numeric_pred(srv, '001', eff_nick or '?')(l)])
    n464 = len([l for l in ctx.written if b' 464 ' in bytes(x for x in l if isinstance(x, int))])
    n433 = len([l for l in ctx.written if b' 433 ' in bytes(x for x in l if isinstance(x, int))])
    if eff_nick and eff_nick not in regular:
        obs.append(('reg:user', f'a user {eff_nick} exists afterwards exactly when registration completed', Iff(post.user_live(eff_nick), reg_ok)))
    obs.append(('reg:welcome', 'the welcome burst is sent exactly when registration completed', Iff(n001 == 1, reg_ok)))
    obs.append(('reg:auth', 'the connection is authenticated exactly when registration completed', Iff(rec['authenticated'], reg_ok)))
    # the negotiation flag itself: LS and REQ open a negotiation (whatever the answer), END closes it
    if verb == 'CAP' and ps and ps[0].upper() in ('LS', 'REQ', 'END'):
        obs.append(('reg:negotiation', f'CAP {ps[0].upper()} leaves the capability negotiation {"open" if caps else "closed"}', Iff(rec['caps'], caps)))
    else:
        obs.append(('reg:negotiation', f'{verb} does not open or close a capability negotiation', Iff(rec['caps'], bool(c0.get('caps_negotation', False)))))
    bad_pw = And(attempt, mm is None, not good)
    obs.append(('reg:464', 'a wrong or missing required password is answered with 464', Iff(n464 == 1, bad_pw)))
    obs.append(('reg:close', 'a wrong or missing required password closes the connection', Implies(bad_pw, ctx.quit != 0)))
    if verb != 'QUIT':
        obs.append(('reg:open', 'otherwise the connection stays open', Implies(Not(bad_pw), ctx.quit == 0)))
    obs.append(('reg:433', 'a nickname in use is answered with 433',
                Iff(n433 == 1, Or(And(triggers == 'nick', taken), And(triggers != 'nick', attempt, mm is None, good, taken)))))
    # registered users are not affected by anything a registering connection does
    def allow(k):
        return len(k) > 1 and k[1] == eff_nick and k[0] in ('user', 'umode', 'away', 'invited', 'userchan', 'wallops')
    saved_post = ctx.post; ctx.post = post
    obs += frame_obligations(ctx, allow, 'reg:frame')
    # ... and a user that already is registered under the claimed nick is left alone as well
    if eff_nick in pre.users:
        was = pre.user_live(eff_nick)
        full = frame_obligations(ctx, lambda k: not allow(k), 'reg:owner-untouched')
        obs += [(i, d, Implies(was, t) if not isinstance(t, bool) else Or(Not(was), t)) for i, d, t in full]
    ctx.post = saved_post
    for n in regular: obs += queue_silent(ctx, [n], 'reg:reveals')
    return obs

@judge('ownership')
def j_ownership(ctx):
    """C02: whatever a connection that owns no user does (commands, teardown), every registered user is untouched;
    a refused registration leaves the connection unauthenticated"""
    if ctx.outcome != 'ok': return []
    pre, post, w = ctx.pre, ctx.post, ctx.w
    rec = conn_record(ctx)
    obs = []
    mine = rec['nick']
    for n in w.spec.nicks:
        obs.append(('owner:survives', f'the registered user {n} still exists', Implies(pre.user_live(n), post.user_live(n))))
        if n == mine: continue
        obs.append(('owner:survives', f'no user {n} appears', Implies(post.user_live(n), pre.user_live(n))))
        if n in post.users and n in pre.users:
            obs.append(('owner:queue', f'{n} is still served by its own connection', Implies(pre.user_live(n), post.users[n]['sender'].fields[0] is w.queues[n])))
    def mine_k(k): return len(k) > 1 and k[1] == mine and k[0] in ('user', 'umode', 'away', 'invited', 'userchan', 'wallops')
    obs += frame_obligations(ctx, mine_k, 'owner:frame')
    if mine in pre.users:
        was = pre.user_live(mine)
        full = frame_obligations(ctx, lambda k: not mine_k(k), 'owner:frame')
        obs += [(i, d, Implies(was, t) if not isinstance(t, bool) else Or(Not(was), t)) for i, d, t in full]
    # I8: an authenticated connection owns the user registered under its nick (judged before the teardown, if any)
    nick = rec['nick']
    mid = getattr(ctx, 'mid', ctx.post)
    if nick is not None:
        owned = False
        if nick in mid.users:
            owned = And(mid.user_live(nick), mid.users[nick]['sender'].fields[0] is ctx.conn['ch'])
        obs.append(('owner:authenticated', 'a connection is authenticated only if it owns the user registered under its nick', Implies(rec['authenticated'], owned)))
    else:
        obs.append(('owner:authenticated', 'a connection without nick is not authenticated', Not(rec['authenticated'])))
    return obs
