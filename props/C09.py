"""C09  KICK, TOPIC and INVITE obey channel rank."""
import sys
import z3
from mirsym.steplib import judge
from mirsym.post import And, Or, Not, Iff, Implies, opt_cond
from props.oracles import *
from props.common import run_property

PROP = 'C09'

def parse_cmd(line):
    r = ref_parse(line.encode())
    return r[1].decode().upper(), [p.decode() for p in r[2]]

@judge('kick')
def j_kick(ctx):
    verb, ps = parse_cmd(ctx.line)
    if verb != 'KICK' or ctx.outcome != 'ok': return []
    pre, post, a = ctx.pre, ctx.post, ctx.actor
    c = ps[0]; victims = ps[1].split(','); comment = ps[2] if len(ps) > 2 else None
    nicks = ctx.w.spec.nicks
    exists = pre.chan_live(c)
    on = pre.member(a, c)
    base = And(exists, on, r_halfop(pre, a, c))
    perm = {}
    for v in dict.fromkeys(victims):
        perm[v] = And(base, pre.member(v, c), Not(r_protected(pre, v, c)), Or(Not(r_halfop(pre, v, c)), Not(r_only_half(pre, a, c))))
    obs = []
    # membership afterwards
    for n in nicks:
        want = And(pre.member(n, c), Not(perm[n])) if n in perm else pre.member(n, c)
        obs.append(('kick:membership', f'KICK: membership of {n} on {c} afterwards', Iff(post.member(n, c), want)))
        if n in perm:
            obs.append(('kick:userside', f'KICK: {n} no longer lists {c} when kicked', Implies(perm[n], Not(post.user_in(n, c)))))
    # channel survives unless emptied and not preconfigured
    left = Or(*[post.member(n, c) for n in nicks])
    obs.append(('kick:channel-life', f'KICK: {c} exists afterwards iff it existed and is preconfigured or still has members',
                Iff(post.chan_live(c), And(exists, Or(ctx.pre.chans[c]['preconf'] if c in ctx.pre.chans else False, left)))))
    # announcements
    s = src_of(ctx, a)
    for n in nicks:
        exp = []
        for v in perm:
            due = And(perm[v], Or(n == v, post.member(n, c)))
            exp.append((f'KICK of {v} to {n}', due, relay_pred(s, 'KICK', [c, v] + ([comment] if comment is not None else []))
                        if comment is not None else _kick_any_comment(s, c, v)))
        if n == a:
            obs += delivery_obligations('kick:announce', ctx.queues.get(n, []), exp)
        else:
            obs += delivery_obligations('kick:announce', ctx.queues.get(n, []), exp)
    # replies
    cl = a; srv = server(ctx)
    exp = [('403', Not(exists), numeric_pred(srv, 403, cl, c)),
           ('442', And(exists, Not(on)), numeric_pred(srv, 442, cl, c)),
           ('482', And(exists, on, Not(r_halfop(pre, a, c))), numeric_pred(srv, 482, cl, c))]
    # per victim refusals (duplicates in the list may repeat a refusal: counted per distinct victim, extra copies tolerated)
    rep = delivery_obligations('kick:reply', [l for l in ctx.written if not numeric_pred(srv, 441, cl)(l) and not numeric_pred(srv, 972, cl)(l)], exp)
    obs += rep
    for v in perm:
        k441 = [l for l in ctx.written if numeric_pred(srv, 441, cl, v, c)(l)]
        obs.append(('kick:reply', f'KICK: 441 for {v} exactly when {v} is not on {c}', Iff(len(k441) >= 1, And(base, Not(pre.member(v, c))))))
    n972 = len([l for l in ctx.written if numeric_pred(srv, 972, cl)(l)])
    refused = Or(*[And(base, pre.member(v, c), Not(perm[v])) for v in perm])
    obs.append(('kick:reply', 'KICK: 972 exactly when some listed member may not be kicked by this actor', Iff(n972 >= 1, refused)))
    obs += frame_obligations(ctx, lambda k: (k[0] in ('member', 'rank', 'userchan') and k[1] in perm and k[2] == c) or (k[0] in ('chan', 'preconf', 'flag', 'haskey', 'haslimit', 'hastopic', 'ban', 'exc', 'invex') and k[1] == c), 'kick:frame')
    # a surviving channel keeps its attributes
    if c in post.chans and c in pre.chans:
        for f in CHFLAGS:
            obs.append(('kick:frame', f'KICK: flag {f} of {c} unchanged while the channel lives', Implies(post.chan_live(c), Iff(post.chans[c]['flags'][f], pre.chans[c]['flags'][f]))))
    obs += counters_frame(ctx)
    return obs

def _kick_any_comment(src, c, v):
    def pred(line):
        if not is_concrete(line): return False
        r = ref_parse(line)
        return r is not None and r[0] == src.encode() and r[1] == b'KICK' and r[2][:2] == [c.encode(), v.encode()]
    pred.desc = f':{src} KICK {c} {v} [comment]'
    return pred

@judge('topic')
def j_topic(ctx):
    verb, ps = parse_cmd(ctx.line)
    if verb != 'TOPIC' or ctx.outcome != 'ok': return []
    pre, post, a = ctx.pre, ctx.post, ctx.actor
    c = ps[0]
    nicks = ctx.w.spec.nicks
    exists, on = pre.chan_live(c), pre.member(a, c)
    srv = server(ctx); cl = a
    obs = []
    M = ctx.M
    if len(ps) >= 2:
        text = ps[1]
        t = pre.chans[c]['flags']['protected_topic'] if c in pre.chans else False
        perm = And(exists, on, Or(Not(t), r_halfop(pre, a, c)))
        if c in post.chans:
            pt = post.chans[c]['topic']; has = opt_cond(pt)
            if text:
                obs.append(('topic:set', f'TOPIC: topic of {c} is set when permitted', Implies(perm, has)))
                if pt.fields:
                    tv = pt.fields[0]
                    val = ctx.prog.struct_field('ChannelTopic', 'topic')
                    obs.append(('topic:set', f'TOPIC: stored topic is the text sent', Implies(And(perm, has), M.values_equal(tv.fields[val], mkstr(text)))))
            else:
                obs.append(('topic:clear', f'TOPIC: empty topic clears it when permitted', Implies(perm, Not(has))))
            if c in pre.chans:
                obs.append(('topic:refused', 'TOPIC: refused change leaves the topic presence as it was',
                            Implies(And(Not(perm), post.chan_live(c)), Iff(has, opt_cond(pre.chans[c]['topic'])))))
        s = src_of(ctx, a)
        for n in nicks:
            exp = [(f'TOPIC to {n}', And(perm, pre.member(n, c)), relay_pred(s, 'TOPIC', [c, text]))]
            obs += delivery_obligations('topic:announce', ctx.queues.get(n, []), exp)
        exp = [('403', Not(exists), numeric_pred(srv, 403, cl, c)),
               ('442', And(exists, Not(on)), numeric_pred(srv, 442, cl, c)),
               ('482', And(exists, on, Not(perm)), numeric_pred(srv, 482, cl, c))]
        obs += delivery_obligations('topic:reply', ctx.written, exp)
        obs += frame_obligations(ctx, lambda k: k == ('hastopic', c), 'topic:frame')
    else:
        has = opt_cond(pre.chans[c]['topic']) if c in pre.chans else False
        exp = [('403', Not(exists), numeric_pred(srv, 403, cl, c)),
               ('442', And(exists, Not(on)), numeric_pred(srv, 442, cl, c)),
               ('331', And(exists, on, Not(has)), numeric_pred(srv, 331, cl, c)),
               ('332', And(exists, on, has), numeric_pred(srv, 332, cl, c)),
               ('333', And(exists, on, has), numeric_pred(srv, 333, cl, c))]
        obs += delivery_obligations('topic:reply', ctx.written, exp)
        obs += frame_obligations(ctx, lambda k: False, 'topic:frame')
        for n in nicks: obs += queue_silent(ctx, [n], 'topic:read')
    obs += counters_frame(ctx)
    return obs

@judge('invite')
def j_invite(ctx):
    verb, ps = parse_cmd(ctx.line)
    if verb != 'INVITE' or ctx.outcome != 'ok': return []
    pre, post, a = ctx.pre, ctx.post, ctx.actor
    who, c = ps[0], ps[1]
    nicks = ctx.w.spec.nicks
    exists, on = pre.chan_live(c), pre.member(a, c)
    i = pre.chans[c]['flags']['invite_only'] if c in pre.chans else False
    srv = server(ctx); cl = a
    # the statement: "an operator if the channel is invite-only"; a founder/protected member without the operator flag is left open
    must = And(exists, on, Or(Not(i), pre.rank(a, c, 'operator')), Not(pre.member(who, c)))
    may = And(exists, on, Or(Not(i), r_operator(pre, a, c)), Not(pre.member(who, c)))
    target = pre.user_live(who)
    obs = []
    got = post.users[who]['invited'].get(c, False) if who in post.users else False
    had = pre.users[who]['invited'].get(c, False) if who in pre.users else False
    obs.append(('invite:grant', f'INVITE: {who} holds an invitation to {c} when the invitation is honoured', Implies(And(must, target), got)))
    obs.append(('invite:refused', f'INVITE: a refused invitation grants nothing', Implies(Not(may), Iff(got, had))))
    s = src_of(ctx, a)
    for n in nicks:
        q = ctx.queues.get(n, [])
        pr = relay_pred(s, 'INVITE', [who, c])
        k = len([l for l in q if pr(l)])
        if n == who:
            obs.append(('invite:notify', f'INVITE: the invited user is notified when honoured', Implies(And(must, target), k == 1)))
            obs.append(('invite:notify', f'INVITE: nobody is notified of a refused invitation', Implies(Not(may), k == 0)))
            obs.append(('invite:notify', 'INVITE: at most one notification', k <= 1))
            extra = [l for l in q if not pr(l)]
            if extra: obs.append(('invite:unexpected', f'INVITE: unexpected line to {n}: {buf_text(extra[0])!r}', False))
        else:
            obs += queue_silent(ctx, [n], 'invite:notify')
    exp = [('403', Not(exists), numeric_pred(srv, 403, cl, c)),
           ('442', And(exists, Not(on)), numeric_pred(srv, 442, cl, c)),
           ('443', And(exists, on, Or(Not(i), pre.rank(a, c, 'operator')), pre.member(who, c)), numeric_pred(srv, 443, cl, who, c))]
    w = ctx.written
    core = [l for l in w if not numeric_pred(srv, 482, cl)(l) and not numeric_pred(srv, 341, cl)(l) and not numeric_pred(srv, 401, cl)(l)]
    obs += delivery_obligations('invite:reply', core, exp)
    n482 = len([l for l in w if numeric_pred(srv, 482, cl, c)(l)])
    obs.append(('invite:reply', 'INVITE: 482 only when the channel is invite-only and the actor is no operator', Implies(n482 >= 1, And(exists, on, i, Not(pre.rank(a, c, 'operator'))))))
    obs.append(('invite:reply', 'INVITE: 482 when invite-only and the actor has no operator-or-higher rank', Implies(And(exists, on, i, Not(r_operator(pre, a, c))), n482 == 1)))
    n341 = len([l for l in w if numeric_pred(srv, 341, cl, who, c)(l)])
    obs.append(('invite:reply', 'INVITE: 341 confirms an honoured invitation', Implies(And(must, target), n341 == 1)))
    obs.append(('invite:reply', 'INVITE: no 341 for a refused invitation', Implies(Or(Not(may), Not(target)), n341 == 0)))
    n401 = len([l for l in w if numeric_pred(srv, 401, cl, who)(l)])
    obs.append(('invite:reply', 'INVITE: 401 for an unknown nick (when otherwise allowed)', Implies(And(must, Not(target)), n401 == 1)))
    obs += frame_obligations(ctx, lambda k: k == ('invited', who, c), 'invite:frame')
    obs += counters_frame(ctx)
    return obs

def make_cases(tier, profile):
    J = ['no_panic', 'inv']
    cases = []
    kick_lines = ['KICK #x bob', 'KICK #x bob :bye now', 'KICK #x alice', 'KICK #x bob,carol', 'KICK #x bob,bob', 'KICK #x dave', 'KICK #nochan bob', 'KICK &y carol,alice']
    if tier != 'quick': kick_lines += ['KICK #x carol,bob,alice', 'KICK #x alice,bob', 'KICK &y bob :x', 'KICK #x dave,bob', 'KICK #x bob,dave,bob']
    for l in kick_lines: cases.append(dict(name=l, line=l, judges=J + ['kick']))
    topic_lines = ['TOPIC #x :new topic', 'TOPIC #x :', 'TOPIC #x', 'TOPIC #x single', 'TOPIC #nochan :t', 'TOPIC #nochan', 'TOPIC &y :a:b c']
    for l in topic_lines: cases.append(dict(name=l, line=l, judges=J + ['topic']))
    inv_lines = ['INVITE bob #x', 'INVITE dave #x', 'INVITE alice #x', 'INVITE carol &y', 'INVITE bob #nochan']
    for l in inv_lines: cases.append(dict(name=l, line=l, judges=J + ['invite']))
    for c in cases:
        c['spec'] = dict(sym_modes=False, sym_away=False, sym_lists=False, sym_max_joins=False, sym_caps=False,
                         nicks=['alice', 'bob', 'carol'] if tier == 'quick' else ['alice', 'bob', 'carol', 'erin'])
    return cases

BOUNDS = dict(universe='3 registered users (4 thorough), 2 channels + 1 unknown channel + 1 unknown nick; every membership, all five rank flags per member, '
                       'i/m/s/t/n flags, key, limit (64-bit), topic presence, preconfigured bit and invitations symbolic',
              commands='KICK (1-3 victims incl. absent, repeated, own), TOPIC (set, clear, read), INVITE (member, non-member, unknown)',
              outside='longer victim lists; more users/channels; user modes and mask lists held fixed in this check (they do not influence these handlers)')

if __name__ == '__main__':
    run_property(PROP, sys.argv[1], int(sys.argv[2]), make_cases, BOUNDS,
                 ['KICK/TOPIC/INVITE permission rules as stated in C09; INVITE on +i by a founder/protected member without the operator flag is left open (either outcome accepted)'])
