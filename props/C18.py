"""C18  Per-connection order is kept and concurrent commands take effect atomically.

Interleaving form: the connection tasks of 2 (3) connections are run as the real MainState::process coroutines under a scheduler
that explores every schedule of their yield points (lock acquisitions, blocking-job awaits); the final state and every output
sequence must equal those of SOME serial order of the same commands, computed by the same engine in copies of the world."""
import sys, time, itertools
import z3
from mirsym.values import *
from mirsym.explore import explore, Stats, model_of, check_valid
from mirsym.checklib import span_text, Finding
from mirsym.world import World, Spec
from mirsym.post import Snapshot, And, Or, Not, Iff, Implies, L
from mirsym.sched import Scheduler
from mirsym.models.tokio_m import ModelFuture, ready, pending, poll_future
from mirsym.steplib import buf_text
from props.oracles import relations
from props.common import run_property, pure

PROP = 'C18'

class SeqTask(ModelFuture):
    """one connection's task: the real loop - one event per MainState::process call (a queued message to forward, or the
    next input line) - until its input lines are consumed"""
    def __init__(self, w, conn, lines):
        self.w, self.conn = w, conn
        for ln in lines:
            conn['src'].items.append(('line', mkstring(ln)))
        self.cur = None
    def poll(self, M, cx):
        while True:
            if self.cur is None:
                if not self.conn['src'].items: return ready(Tup())
                self.cur = Cell(self.w.start_process(self.conn))
            r = poll_future(M, Ref(self.cur), cx)
            if r.variant != 0: return pending()
            self.cur = None
            q = self.conn['quit'].cell.v.fields[0]
            if isinstance(q, int) and q != 0:
                del self.conn['src'].items[:]
                return ready(Tup())

def drain(M, w, conns):
    """every connection forwards what is queued for it (its task keeps running after the scenario)"""
    for k, cn in conns.items():
        q = cn['quit'].cell.v.fields[0]
        if isinstance(q, int) and q != 0: continue
        guard = 0
        while cn['ch'].q and guard < 50:
            guard += 1
            w.run_to_completion(w.start_process(cn))

def merges(counts):
    """all orders of the commands that respect every connection's own order: sequences of connection indexes"""
    out = []
    def rec(rem, acc):
        if not any(rem): out.append(tuple(acc)); return
        for i, r in enumerate(rem):
            if r:
                rem[i] -= 1; acc.append(i); rec(rem, acc); acc.pop(); rem[i] += 1
    rec(list(counts), [])
    return out

def build(M, prog, case):
    spec = Spec(**case.get('spec', {}))
    w = World(M, prog, spec, partial=case.get('partial'))
    conns = {}
    for a in case['actors']:
        if a.get('registered', True): conns[a['key']] = w.add_conn(a['key'])
        else: conns[a['key']] = w.add_conn(a.get('nick'), registered=False, name=a.get('name'), password=a.get('password'), key=a['key'])
    return w, conns

def observe(prog, w, conns):
    snap = Snapshot(prog, w.vs)
    class C: pass
    c = C(); c.pre = snap; c.post = snap; c.M = None
    rel = relations(snap, None)
    # replies to the connection's own commands (in order), separately from what others queued for it
    outs = {}
    for k, cn in conns.items():
        fwd = set(id(s) for s in cn['ch'].log)
        outs[k] = [list(s.data) for s in cn['src'].written if id(s) not in fwd]
    # per receiver and sender: the messages in the order they were queued
    queues = {}
    for n, ch in w.queues.items():
        for s in ch.log:
            d = list(s.data)
            snd = bytes(x for x in d[:d.index(32)] if isinstance(x, int)) if 32 in d else b''
            queues.setdefault((n, snd), []).append(d)
    auth = {}
    for k, cn in conns.items():
        us = cn['cell'].v.fields[prog.struct_field('ConnState', 'user_state')]
        auth[k] = us.fields[prog.struct_field('ConnUserState', 'authenticated')]
    return rel, outs, queues, auth

import re as _re
def _norm(line):
    """a numeric's first parameter is the name the server currently has for the client (nick, user name or host): not part of the outcome"""
    if all(isinstance(x, int) for x in line[:60]):
        txt = bytes(x for x in line if isinstance(x, int))
        m = _re.match(rb'(:\S+ \d\d\d) \S+( .*)?$', txt)
        if m and len(txt) == len(line): return list(m.group(1) + b' *' + (m.group(2) or b''))
    return line

def same_lists(a, b):
    a = [_norm(x) for x in a]; b = [_norm(x) for x in b]
    if len(a) != len(b): return False
    for x, y in zip(a, b):
        if len(x) != len(y): return False
        for p, q in zip(x, y):
            if isinstance(p, int) and isinstance(q, int):
                if p != q: return False
            elif isinstance(p, int) != isinstance(q, int): return False
    return True

def equal_outcome(o1, o2):
    rel1, outs1, q1, a1 = o1; rel2, outs2, q2, a2 = o2
    conds = []
    for k in set(outs1) | set(outs2):
        if not same_lists(outs1.get(k, []), outs2.get(k, [])): return False
    for k in set(q1) | set(q2):
        if not same_lists(q1.get(k, []), q2.get(k, [])): return False
    for k in set(rel1) | set(rel2):
        conds.append(Iff(rel1.get(k, False), rel2.get(k, False)))
    for k in a1:
        conds.append(Iff(a1[k], a2[k]))
    return And(*conds)

@pure('interleave')
def p_interleave(prog, case, budget):
    st = Stats(); findings = []; samples = []; nontriv = [0]
    actors = case['actors']
    def run(M):
        M.env['select_start'] = 0
        M.env['verify'] = lambda M_, pw, hs: M_.values_equal(pw, hs)
        # the interleaved run
        w, conns = build(M, prog, case)
        sch = Scheduler(M, max_polls=case.get('max_polls', 60))
        sch.run([dict(name=a['key'], fut=SeqTask(w, conns[a['key']], a['lines'])) for a in actors])
        drain(M, w, conns)
        inter = observe(prog, w, conns)
        trace = list(sch.trace)
        # every serial order
        serial = []
        for order in merges([len(a['lines']) for a in actors]):
            w2, conns2 = build(M, prog, case)
            cx = Ref(Cell(Opaque('Context')))
            nxt = [0] * len(actors)
            for i in order:
                a = actors[i]
                t = SeqTask(w2, conns2[a['key']], [a['lines'][nxt[i]]]); nxt[i] += 1
                r = t.poll(M, cx)
                if r.variant != 0: raise BoundExceeded('a serial run blocks')
            drain(M, w2, conns2)
            serial.append((order, observe(prog, w2, conns2)))
        return inter, serial, trace
    def on(r):
        M = r.M
        if r.kind == 'panic':
            findings.append(dict(kind='panic', site='interleaving: ' + span_text(prog, r.value.site) + ' ' + r.value.msg[:60], what=r.value.msg, predicate='panic',
                                 witness=dict(case=case['name'], profile=prog.profile)))
            return
        if r.kind != 'ok': return
        if M.solver.check() != z3.sat: return
        nontriv[0] += 1
        inter, serial, trace = r.value
        eqs = [equal_outcome(inter, s) for _, s in serial]
        ob = Or(*eqs)
        v, md = check_valid(M, ob, st)
        if not v:
            outs = {k: [buf_text(l) for l in v_][:6] for k, v_ in inter[1].items()}
            findings.append(dict(kind='obligation', site='not-serializable', what=f'{case["name"]}: the outcome of schedule {trace} equals no serial order of the commands',
                                 predicate=case['name'], witness=dict(case=case['name'], schedule=[str(t) for t in trace], outputs=outs,
                                                                     queues={str(k): [buf_text(l) for l in v_][:4] for k, v_ in inter[2].items() if v_}, profile=prog.profile)))
        for name, fn in case.get('extra', []):
            t = EXTRA[fn](prog, case, inter)
            v, md = check_valid(M, t, st)
            if not v:
                findings.append(dict(kind='obligation', site=name, what=f'{case["name"]}: {name} (schedule {trace})', predicate=name + '|' + case['name'],
                                     witness=dict(case=case['name'], schedule=[str(t_) for t_ in trace], profile=prog.profile)))
        if len(samples) < 1:
            samples.append(dict(case=case['name'], schedule=[str(t) for t in trace][:12], serial_orders=len(serial)))
    explore(prog, run, on, stats=st, prefix=case.get('prefix'), timeout_ms=budget['solver_ms'], max_steps=budget['steps'], max_paths=budget['paths'],
            deadline=(time.time() + budget['case_s']) if budget.get('case_s') else None)
    return dict(stats=st, findings=findings, samples=samples, nontrivial=nontriv[0], case=case['name'])

EXTRA = {}
def extra(name):
    def deco(f):
        EXTRA[name] = f; return f
    return deco

@extra('one_owner')
def x_one_owner(prog, case, inter):
    rel, outs, queues, auth = inter
    keys = [a['key'] for a in case['actors'] if not a.get('registered', True)]
    owners = [auth[k] for k in keys]
    # exactly one of the claimants is authenticated and the nick is registered
    one = Or(*[And(o, *[Not(p) for j, p in enumerate(owners) if j != i]) for i, o in enumerate(owners)])
    return And(one, rel.get(('user', case['claimed']), False))

@extra('limit_kept')
def x_limit(prog, case, inter):
    rel, outs, queues, auth = inter
    c, lim = case['limited']
    members = [rel.get(('member', n, c), False) for n in case['spec']['nicks']]
    from mirsym.post import bv_sum
    return z3.ULE(bv_sum(members), z3.BitVecVal(lim, 64))

@extra('one_founder')
def x_one_founder(prog, case, inter):
    rel, outs, queues, auth = inter
    c = case['created']
    f = [rel.get(('rank', n, c, 'founder'), False) for n in case['spec']['nicks']]
    from mirsym.post import bv_sum
    return And(rel.get(('chan', c), False), bv_sum(f) == 1)

def make_cases(tier, profile):
    cases = []
    base = dict(sym_caps=False, sym_max_joins=False, sym_topic=False, sym_key=False, sym_limit=False, sym_lists=False, sym_flags=False, sym_ranks=False, sym_invites=False, sym_away=False,
                sym_modes=False, sym_preconf=False, plain_chans=['&y'], nicks=['alice', 'bob', 'carol'])
    R = lambda key, *lines: dict(key=key, lines=list(lines))
    U = lambda key, nick, name, *lines, **kw: dict(key=key, registered=False, nick=nick, name=name, lines=list(lines), **kw)
    def add(name, actors, partial=None, spec=None, **kw):
        cases.append(dict(name=name, pure='interleave', actors=actors, partial=partial or {}, spec=dict(base, **(spec or {})), **kw))
    only_carol = {'exists_#x': True, 'mem_carol_#x': True, 'mem_alice_#x': False, 'mem_bob_#x': False}
    all_x = {'exists_#x': True, 'mem_carol_#x': True, 'mem_alice_#x': True, 'mem_bob_#x': True}
    add('two connections claim the same nick', [U('c1', None, 'u1', 'NICK zed'), U('c2', None, 'u2', 'NICK zed')], extra=[('one_owner', 'one_owner')], claimed='zed', dsplit=2)
    add('claim by NICK against claim completed by USER', [U('c1', 'zed', None, 'USER u1 0 * :r'), U('c2', None, 'u2', 'NICK zed')], extra=[('one_owner', 'one_owner')], claimed='zed')
    add('two claims with a server password (blocking verification)', [U('c1', None, 'u1', 'NICK zed', password='goodpw'), U('c2', None, 'u2', 'NICK zed', password='goodpw')],
        spec=dict(password='goodpw'), extra=[('one_owner', 'one_owner')], claimed='zed', dsplit=4)
    add('registered NICK against a registering connection', [R('alice', 'NICK zed'), U('c2', None, 'u2', 'NICK zed')], dsplit=2)
    add('two first JOINs of a new channel', [R('alice', 'JOIN #new'), R('bob', 'JOIN #new')], extra=[('one_founder', 'one_founder')], created='#new')
    add('two JOINs into the last free place of a +l channel', [R('alice', 'JOIN #x'), R('bob', 'JOIN #x')], partial=dict(only_carol, **{'haslimit_#x': True, 'limit_#x': 2}),
        spec=dict(sym_limit=True), extra=[('limit_kept', 'limit_kept')], limited=('#x', 2))
    add('two messages from one sender against a PART', [R('alice', 'PRIVMSG #x :one', 'PRIVMSG #x :two'), R('bob', 'PART #x')], partial=all_x)
    add('message to a nick against its NICK change', [R('alice', 'PRIVMSG bob :hi'), R('bob', 'NICK robert')], partial=all_x)
    add('KICK against a message of the victim', [R('alice', 'KICK #x bob'), R('bob', 'PRIVMSG #x :still here')], partial=dict(all_x, **{'operator_alice_#x': True}), spec=dict(sym_ranks=True), dsplit=2)
    add('MODE +m against a message', [R('alice', 'MODE #x +m'), R('bob', 'PRIVMSG #x :may I')], partial=dict(all_x, **{'operator_alice_#x': True}), spec=dict(sym_ranks=True, sym_flags=True), dsplit=3)
    add('QUIT against a message to the leaver', [R('alice', 'QUIT'), R('bob', 'PRIVMSG alice :bye')], partial=all_x)
    add('per-connection order: three commands of one connection against one of another', [R('alice', 'JOIN #new', 'TOPIC #new :t', 'PART #new'), R('bob', 'JOIN #new')])
    if tier != 'quick':
        add('three connections claim the same nick', [U('c1', None, 'u1', 'NICK zed'), U('c2', None, 'u2', 'NICK zed'), U('c3', None, 'u3', 'NICK zed')], extra=[('one_owner', 'one_owner')], claimed='zed', max_polls=120)
        add('three first JOINs', [R('alice', 'JOIN #new'), R('bob', 'JOIN #new'), R('carol', 'JOIN #new')], extra=[('one_founder', 'one_founder')], created='#new', max_polls=120)
        add('two commands each', [R('alice', 'JOIN #new', 'PRIVMSG #new :a'), R('bob', 'JOIN #new', 'PRIVMSG #new :b')], max_polls=120)
    return cases

BOUNDS = dict(connections='2 connections with 1-3 commands each (thorough: also 3 connections x 1 and 2 x 2)', yield_points='every acquisition of the state lock (the task may be delayed there, once) and the await of the blocking password verification; all schedules enumerated',
              worlds='concrete small worlds per scenario (the scenarios of the statement: rival nick claims incl. password verification, first joins, last free place under +l, message vs PART/NICK/KICK/MODE/QUIT, per-connection order)',
              outside='pre-emption inside a poll between two non-awaiting statements (no shared state is touched outside the lock except message queues, which are FIFO per sender by the tokio contract); memory-model effects; more connections/commands than stated; data-race freedom is Rust\'s and tokio\'s')

def native_stress(run, case, rounds=25):
    """run the scenario concurrently against the real binary `rounds` times and evaluate the scenario's own oracle on what the sockets show"""
    import threading, time as _t
    from mirsym import ircreplay as R
    from mirsym.world import Spec
    spec = Spec(**case.get('spec', {}))
    model = dict(case.get('partial') or {})
    exe = run.snap.build_server(False)
    hashes = {}
    if spec.password: hashes[spec.password] = R.password_hash(exe, spec.password)
    # a bystander that makes the server hold the state lock for a password verification (OPER with a wrong password) just when the racing
    # commands arrive: they queue behind it and are released together, which widens the native window of lock-related races
    if not spec.operators:
        spec.operators = [('opname', 'goodpw', None)]
    for o in spec.operators: hashes[o[1]] = R.password_hash(exe, o[1])
    kinds = [e[1] for e in case.get('extra', [])]
    seen = []
    t_start = _t.time()
    for rd in range(max(rounds, 150)):
        if rd >= rounds and _t.time() - t_start > 180: break
        nicks, need_helper, setup = R.plan(spec, model)
        srv = R.Server(exe, R.make_config(spec, model, hashes, R.HELPER if need_helper else None), run.snap.dir, tag='stress')
        clients = {}
        try:
            def reg(n):
                c = R.Client(srv.port, n); clients[n] = c
                if spec.password: c.send('PASS ' + spec.password)
                c.send(f'NICK {n}'); c.send(f'USER {spec.uname(n)} 0 * :Real {n}')
                return any(b' 001 ' in l for l in c.barrier())
            for n in ([R.HELPER] if need_helper else []) + nicks:
                if not reg(n): return None, f'registration of {n} failed'
            for n, line in setup:
                clients[n].send(line.lstrip('?')); clients[n].barrier()
            for n in nicks: clients[n].barrier()
            acts = []
            for a in case['actors']:
                if a.get('registered', True): c = clients[a['key']]
                else:
                    c = R.Client(srv.port, a['key']); clients[a['key']] = c
                    if a.get('password'): c.send('PASS ' + a['password'])
                    if a.get('nick'): c.send('NICK ' + a['nick'])
                    if a.get('name'): c.send(f'USER {a["name"]} 0 * :Real')
                acts.append((a, c))
            holder = R.Client(srv.port, 'holder'); clients['holder'] = holder
            holder.send('NICK holder'); holder.send('USER holder 0 * :Holder'); holder.barrier()
            _t.sleep(0.15)
            if rd % 2 == 1: holder.send(f'OPER {spec.operators[0][0]} wrong-password')        # every other round
            bar = threading.Barrier(len(acts))
            def go(a, c):
                bar.wait()
                for ln in a['lines']: c.send(ln)
            th = [threading.Thread(target=go, args=x) for x in acts]
            for t in th: t.start()
            for t in th: t.join()
            _t.sleep(0.4)
            got = {a['key']: c._read_lines(0.5) for a, c in acts}
            bad = None
            if 'one_owner' in kinds:
                winners = [k for k, ls in got.items() if any(b' 001 ' in l for l in ls)]
                if len(winners) != 1: bad = f'{len(winners)} connections were welcomed under the nick'
                for a, c in acts:
                    if a['key'] not in winners and not c.eof:
                        c.send('LUSERS'); _t.sleep(0.2)
                        ans = c._read_lines(0.5)
                        if not any(b' 451 ' in l for l in ans): bad = f'the refused connection {a["key"]} is served as a registered user: {ans[:2]}'
            if 'one_founder' in kinds:
                c = acts[0][1]; c.send('NAMES ' + case['created']); _t.sleep(0.2)
                names = b' '.join(l for l in c._read_lines(0.5) if b' 353 ' in l)
                if names.count(b'~') != 1: bad = f'{names.count(b"~")} founders: {names[:200]}'
            if 'limit_kept' in kinds:
                ch, lim = case['limited']
                obs = [n for n in nicks if model.get(f'mem_{n}_{ch}')][0]
                clients[obs].barrier(); clients[obs].send('NAMES ' + ch); _t.sleep(0.2)
                ls = [l for l in clients[obs]._read_lines(0.5) if b' 353 ' in l]
                cnt = sum(len(l.split(b' :', 1)[1].split()) for l in ls)
                if cnt > lim: bad = f'{cnt} members on a channel limited to {lim}'
            seen.append(bad)
            if bad:
                run.native_replays += 1
                return True, f'round {rd}: {bad}'
        finally:
            for c in clients.values(): c.close()
            srv.stop()
    run.native_replays += rd + 1
    return False, f'{rd + 1} concurrent native rounds showed no violation of {kinds}'

def confirm(run, cands):
    done = set()
    # scenarios with a wide native window (blocking password verification) first
    for f in sorted(cands, key=lambda f: (0 if 'password' in f['witness'].get('case', '') else 1, f['site'] == 'not-serializable')):
        fi = Finding(PROP, f['kind'], f['site'], f['what'], f['witness'], role=dict(predicate=f.get('predicate', '')))
        case = run.cases_by_name.get(f['witness'].get('case'))
        import re as _re
        base = _re.sub(r' [{<\[][01,]+[}>\]]$', '', case['name']) if case is not None else None      # sub-cases of one scenario (split suffix) share one native confirmation
        if case is not None and base in done and f['site'] != 'not-serializable' and case.get('extra'):
            fi.confirmed = 'skipped'; fi.native = 'same scenario as an already confirmed counterexample (another part of the split schedule space)'
            run.add_finding(fi); continue
        if case is not None and case.get('extra') and f['site'] != 'not-serializable' and base not in done:
            done.add(base)
            try:
                okk, text = native_stress(run, case)
            except Exception as e:
                okk, text = None, 'native stress run failed: ' + repr(e)[:300]
            fi.confirmed = True if okk else None
            fi.native = text
            fi.replay = dict(kind='stress', case=case['name'])
        else:
            fi.confirmed = None
            fi.native = ('a schedule cannot be forced on the real runtime from outside; scenarios with a native oracle (one owner, one founder, limit) are confirmed by concurrent '
                         'native rounds, the others are reported as inconclusive (exit 2)')
        run.add_finding(fi)

if __name__ == '__main__':
    run_property(PROP, sys.argv[1], int(sys.argv[2]), make_cases, BOUNDS,
                 ['tokio RwLock is a correct reader/writer lock; a task yields only at lock acquisitions and at the blocking-job await (all other awaits in the handlers are on ready futures)'], confirm=confirm)
