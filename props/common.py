"""Shared driver of the handler-level property checks."""
import sys, os, json, time
from mirsym.checklib import CheckRun, Finding
from mirsym.explore import run_cases
from mirsym import steplib

PROGS = {}
BUDGET = {}

PURE = {}

def pure(name):
    def deco(f):
        PURE[name] = f; return f
    return deco

def _case(c):
    if c.get('pure'):
        return PURE[c['pure']](PROGS[c['profile']], c, BUDGET)
    return steplib.step_case(PROGS[c['profile']], c, BUDGET)

def budgets(tier):
    if tier == 'quick':
        return dict(solver_ms=10000, steps=3_000_000, paths=40000, case_s=1200)
    return dict(solver_ms=60000, steps=20_000_000, paths=400000, case_s=5400)

def run_property(prop, tier, seed, make_cases, bounds, assumptions, confirm=None, profiles=None, post=None):
    run = CheckRun(prop, tier, seed)
    profiles = profiles or (('dev',) if tier == 'quick' else ('dev', 'rel'))
    run.prepare(profiles)
    for p in profiles: PROGS[p] = run.prog(p)
    BUDGET.update(budgets(tier)); BUDGET['seed'] = seed
    cases = []
    for p in profiles:
        for c in make_cases(tier, p):
            c = dict(c); c['profile'] = p
            split = c.pop('split', None)
            p0 = c.pop('partial0', None) or {}
            if p0:
                c['partial'] = dict(p0)
                split = [v for v in (split or []) if v not in p0]
            if split:
                # partition the world on these variables: sub-cases run in parallel, together they cover every value
                import itertools
                for vals in itertools.product([False, True], repeat=len(split)):
                    d = dict(c); d['partial'] = dict(p0); d['partial'].update(zip(split, vals))
                    d['name'] = c.get('name', str(c.get('line'))) + ' [' + ''.join('1' if v else '0' for v in vals) + ']'
                    cases.append(d)
            else:
                cases.append(c)
    # decision split: the first k branch decisions of a case are fixed per sub-case (2^k workers explore disjoint parts of its path tree)
    expanded = []
    for c in cases:
        k = c.pop('dsplit', 0)
        if not k: expanded.append(c); continue
        import itertools
        for bits in itertools.product([True, False], repeat=k):
            d = dict(c); d['prefix'] = [[b, False] for b in bits]
            d['name'] = c.get('name', str(c.get('line'))) + ' {' + ''.join('1' if b else '0' for b in bits) + '}'
            expanded.append(d)
    cases = expanded
    # choice split: the first occurrence of the named environment choices is fixed per sub-case ((label, n) pairs; values >= the actual arity are infeasible)
    expanded = []
    for c in cases:
        cs = c.pop('csplit', None)
        if not cs: expanded.append(c); continue
        import itertools
        for vals in itertools.product(*[range(n) for _, n in cs]):
            d = dict(c); fc = {}
            for (lab, _), v in zip(cs, vals): fc.setdefault(lab, []).append(v)
            d['forced_choices'] = fc
            d['name'] = c.get('name', str(c.get('line'))) + ' <' + ','.join(str(v) for v in vals) + '>'
            expanded.append(d)
    cases = expanded
    if os.environ.get('VERIF_ONLY'):        # development aid: run only the cases whose name contains this text (registered commands never set it)
        cases = [c for c in cases if os.environ['VERIF_ONLY'] in c.get('name', str(c.get('line')))]
    run.cases_by_name = {c.get('name', str(c.get('line'))): c for c in cases}
    run.bounds = dict(bounds)
    run.bounds.update(cases=len(cases), solver_timeout_ms=BUDGET['solver_ms'], step_budget_per_path=BUDGET['steps'], profiles=list(profiles))
    cases.sort(key=lambda c: -len(str(c.get('line'))))
    res = run_cases(_case, cases)
    cands = []
    percase = []
    witnesses = []
    for idx, out, errtxt in res:
        if errtxt:
            run.inconclusive.append(f'case {cases[idx].get("name", cases[idx].get("line"))} crashed: {errtxt[-700:]}')
            continue
        run.absorb(out['stats'])
        run.nontrivial += out['nontrivial']
        for s in out['samples']: run.sample(s)
        cands.extend(out['findings'])
        witnesses.extend(out.get('witnesses', []))
        percase.append((out['case'], out['stats'].paths, round(out['stats'].wall, 1)))
    run.extra['cases_run'] = [dict(case=c, paths=p, wall_s=w) for c, p, w in sorted(percase, key=lambda x: -x[2])[:40]]
    # dedupe by role; keep the smallest witness (fewest true world bits)
    by = {}
    for f in cands:
        k = (f['kind'], f['site'], f['witness'].get('profile'), _role_of(f))
        size = sum(1 for v in f['witness'].get('world', {}).values() if v) + len(str(f['witness'].get('line', '')))
        if k not in by or size < by[k][0]: by[k] = (size, f)
    cands = [v[1] for v in by.values()]
    if post: post(run, cands)
    if confirm is None:
        from mirsym import ircreplay
        confirm = ircreplay.confirm_findings
    confirm(run, cands)
    validate_encoder(run, witnesses, int(os.environ.get('VERIF_VALIDATE', '4' if tier == 'quick' else '24')), seed)
    run.assumptions = list(assumptions) + [
        'pre-states are all models of the representation invariant Inv (DESIGN.md §4.2) over the stated universe; reachability of a counterexample state is established by native replay of a history that builds it',
        'select! start index pinned (all other branches of the connection loop are pending in these harnesses)',
        'HashMap iteration order = slot order (oracles compare multisets)',
        'logging disabled (tracing level check returns false)']
    run.finish()

def validate_encoder(run, witnesses, n, seed):
    """differential validation (DESIGN.md 6.1): passing paths, concretised by the solver, are run against the real server binary through
    the protocol; the native transcript (replies, deliveries, follow-up probes) must equal the interpreter's prediction."""
    import random
    from mirsym import ircreplay
    if not witnesses or n <= 0: return
    rng = random.Random(seed * 7919 + 13)
    ws = list(witnesses); rng.shuffle(ws)
    done = tried = 0; mism = []; retried = [0]
    for w in ws:
        if done >= n or tried >= 3 * n: break
        case = run.cases_by_name.get(w.get('case'))
        if case is None: continue
        tried += 1
        prof = w.get('profile', 'dev')
        before = run.native_replays
        for attempt in range(3):
            # a disagreement of model and code is deterministic; a socket-timing artefact of the replay is not: only a repeated mismatch counts
            try:
                okk, text = ircreplay.replay_witness(run, run.prog(prof), case, w, release=(prof == 'rel'))
            except Exception as e:
                okk, text = None, 'replay failed: ' + repr(e)[:300]
            if okk is not False: break
            retried[0] += 1
        if okk is True: done += 1
        elif okk is False:
            mism.append(dict(case=w.get('case'), line=w.get('line'), world_true=sorted(k for k, v in w['world'].items() if v is True)[:30], diff=text[:1200]))
            os.makedirs('/verif/out/replays', exist_ok=True)
            json.dump(dict(replay=dict(kind='socket', case=case, witness=w, profile=prof), note='passing path whose native transcript differed from the prediction'),
                      open(f'/verif/out/replays/{run.prop}-val-{len(mism)}.json', 'w'), indent=1, default=str)
    run.validation_vectors += done
    run.extra['encoder_validation'] = dict(passing_paths_replayed=done, replays_repeated_after_a_transient_difference=retried[0], skipped=tried - done - len(mism), mismatches=mism[:5])
    for m in mism[:3]:
        run.inconclusive.append('ENCODER-MISMATCH on a passing path (model and real code disagree): ' + json.dumps(m)[:1500])

def _role_of(f):
    w = f['witness']
    line = str(w.get('line', ''))
    return (f.get('predicate', ''), line.split(' ')[0].upper() if line else '')
