"""C17  Keep-alive drops dead peers and keeps live ones.

The real ping_client_waker / pong_client_timeout coroutines, ConnState::run_ping_waker / run_pong_timeout and the ping, timeout and
PONG branches of the connection loop are executed on a virtual clock whose durations ping_timeout = P and pong_timeout = Q are
symbolic; the environment (tokio time, spawn, channels) is modelled.  This is the most model-dependent check (see DESIGN.md)."""
import sys, time
import z3
from mirsym.values import *
from mirsym.explore import explore, Stats, model_of, check_valid
from mirsym.checklib import span_text, Finding
from mirsym.world import World, Spec, fld
from mirsym.post import And, Or, Not, Iff, Implies
from mirsym.models import tokio_m
from mirsym.models.tokio_m import poll_future, clock, SleepFuture
from mirsym.steplib import judge, buf_text
from props.oracles import *
from props.common import run_property, pure

PROP = 'C17'

def le(M, a, b): return M.binop_t('Le', a, b, 'u64')
def add(M, a, b): return M.binop_t('Add', a, b, 'u64')

def simulate(M, prog, case):
    """-> dict(quit_time, first_ping, pings, errors, log)"""
    M.env['select_start'] = 0
    if case.get('forced_choices'): M.env['forced_choices'] = {k: list(v) for k, v in case['forced_choices'].items()}
    P = z3.BitVec('P', 64); Q = z3.BitVec('Q', 64)
    M.assume(z3.And(z3.UGE(P, 1), z3.ULE(P, 1 << 20), z3.UGE(Q, 1), z3.ULE(Q, 1 << 20)))
    reg = case['regime']
    if reg == 'Q<P': M.assume(z3.ULT(Q, P))
    elif reg == 'Q=P': M.assume(Q == P)
    elif reg == 'P<Q<2P': M.assume(z3.And(z3.UGT(Q, P), z3.ULT(Q, 2 * P)))
    elif reg == 'Q=2P': M.assume(Q == 2 * P)
    elif reg == '2P<Q<3P': M.assume(z3.And(z3.UGT(Q, 2 * P), z3.ULT(Q, 3 * P)))
    spec = Spec(sym_modes=False, sym_away=False, sym_ranks=False, sym_lists=False, sym_flags=False, sym_key=False, sym_limit=False, sym_topic=False, sym_invites=False,
                sym_max_joins=False, sym_caps=False, sym_preconf=False, plain_chans=['#x', '&y'], ping_timeout=P, pong_timeout=Q)
    w = World(M, prog, spec, partial={'exists_#x': False, 'exists_&y': False})
    conn = w.add_conn('alice')
    # a freshly registered connection: the ping sender has not been handed to the waker yet
    cs = conn['cell'].v
    cs.fields[prog.struct_field('ConnState', 'ping_sender')] = some(tokio_m.mk_sender(conn['ping']))
    ck = clock(M); ck.now = 0
    M.env['tasks'] = []; M.env['timers'] = []
    cfg = Ref(w.main_cell, (prog.struct_field('MainState', 'config'),))
    M.run_fn(prog.resolve_crate_fn('state::structs::ConnState::run_ping_waker'), [Ref(conn['cell']), cfg])
    cx = Ref(Cell(Opaque('Context')))
    tasks = M.env['tasks']
    tcells = {}
    behaviour = case['client']            # 'silent' | 'answers' | ('stops_after', k)
    delta = z3.BitVec('delta', 64)
    if behaviour == 'late':
        M.assume(z3.UGT(delta, Q)); M.assume(z3.ULE(delta, Q + P))
    elif behaviour != 'silent':
        # answers within pong_timeout - possibly later than the next PING(s) when pong_timeout > ping_timeout; the delay band keeps the order of events decided
        M.assume(z3.ULT(delta, Q))
        band = case.get('band', 'd<P')
        M.assume({'d<P': z3.ULT(delta, P), 'd=P': delta == P, 'P<d<2P': z3.And(z3.UGT(delta, P), z3.ULT(delta, 2 * P)), 'd=2P': delta == 2 * P,
                  '2P<d': z3.UGT(delta, 2 * P)}[band])
    seen = 0; answered = 0
    log = []; pings = []; quit_time = None; error_line = False
    conn_fut = None
    periods = case['periods']
    horizon = add(M, P * periods, add(M, Q, 1))
    tie = False; owner = {}; due_owners = set()
    for rnd in range(400):
        # several timers due at the same instant: the runtime may run the tasks, and select! may look at its branches, in any order
        perm = None
        if tie:
            M.env['select_start'] = 1 + M.choose(2, 'select_order')        # 1: ping branch first, 2: timeout branch first
            import itertools
            # only the tasks whose timer is due now can make a difference (the others stay pending whatever the order)
            live = [t for t in tasks if not t['done'] and id(t) in due_owners]
            perms = list(itertools.permutations(['conn'] + live))[:24]
            perm = perms[M.choose(len(perms), 'task_order')] if len(perms) > 1 else perms[0]
        else:
            M.env['select_start'] = 0
        # run everything until nothing moves at the current instant
        for inner in range(60):
            act = False; a0 = M.env.get('activity', 0)
            q = conn['quit'].cell.v.fields[0]
            if not (isinstance(q, int) and q == 0):
                quit_time = ck.now
                break
            units = (list(perm) + [t for t in tasks if not any(t is u for u in perm)]) if (perm is not None and inner == 0) else ['conn'] + list(tasks)
            for t in units:
                ntm = len(M.env['timers'])
                if t == 'conn':
                    if conn_fut is None: conn_fut = Cell(w.start_process(conn))
                    r = poll_future(M, Ref(conn_fut), cx)
                    for tm in M.env['timers'][ntm:]: owner[id(tm)] = 'conn'
                    if r.variant == 0:
                        conn_fut = None; act = True
                    continue
                if t['done']: continue
                if id(t) not in tcells: tcells[id(t)] = Cell(t['fut'])
                r = poll_future(M, Ref(tcells[id(t)]), cx)
                for tm in M.env['timers'][ntm:]: owner[id(tm)] = id(t)
                if r.variant == 0:
                    t['done'] = True; act = True
                    M.drop_value(tcells[id(t)].v)
            wr = conn['src'].written
            while seen < len(wr):
                txt = bytes(x for x in wr[seen].data if isinstance(x, int)); seen += 1
                if b' PING ' in txt:
                    pings.append(ck.now); log.append(('PING', ck.now))
                    lim = behaviour[1] if isinstance(behaviour, tuple) else None
                    if behaviour != 'silent' and (lim is None or answered < lim):
                        conn['src'].items.append(('at', add(M, ck.now, delta), mkstring(['PONG :LALAL', 'PONG other', 'PONG :x y'][answered % 3])))
                        answered += 1
                        act = True
                if b'ERROR' in txt:
                    error_line = True; log.append(('ERROR', ck.now))
            if not act and M.env.get('activity', 0) == a0: break
        if quit_time is not None: break
        # advance the clock to the earliest deadline that is still ahead
        ahead = []; who = []
        for t in M.env['timers']:
            d = t.deadline
            if not M.branch(le(M, d, ck.now)): ahead.append(d); who.append(owner.get(id(t)))
        M.env['timers'] = []
        if not ahead: break
        best = ahead[0]
        for d in ahead[1:]:
            if M.branch(z3.ULT(d, best) if is_sym(d) or is_sym(best) else d < best): best = d
        if not M.branch(le(M, best, horizon)):
            break
        tie = False; due_owners = set()
        for d, o in zip(ahead, who):
            if d is best or M.branch(d == best if (is_sym(d) or is_sym(best)) else d == best):
                due_owners.add(o)
        tie = len(due_owners) > 1
        ck.now = best
    return dict(P=P, Q=Q, quit_time=quit_time, pings=pings, error=error_line, log=log, now=ck.now, delta=delta)

@pure('keepalive')
def p_keepalive(prog, case, budget):
    st = Stats(); findings = []; samples = []; nontriv = [0]
    def run(M):
        return simulate(M, prog, case)
    def on(r):
        M = r.M
        if r.kind == 'panic':
            findings.append(dict(kind='panic', site='keep-alive: ' + span_text(prog, r.value.site), what=r.value.msg, predicate='panic', witness=dict(case=case['name'], profile=prog.profile)))
            return
        if r.kind != 'ok': return
        if M.solver.check() != z3.sat: return
        nontriv[0] += 1
        res = r.value
        P, Q = res['P'], res['Q']
        obs = []
        if case['client'] in ('silent', 'late') or isinstance(case['client'], tuple):
            if not res['pings']:
                obs.append(('keepalive:ping', 'a PING is sent every ping_timeout seconds', False))
            else:
                k = case['client'][1] if isinstance(case['client'], tuple) else 0
                if len(res['pings']) > k:
                    first_unanswered = res['pings'][k]
                    dl = first_unanswered + Q
                    if res['quit_time'] is None:
                        # the simulation ran to the horizon without a disconnect: only acceptable if the deadline lies beyond it
                        obs.append(('keepalive:dead-peer', f'a client silent since its PING number {k + 1} is disconnected within pong_timeout of that PING', z3.UGT(dl, res['now'])))
                    else:
                        obs.append(('keepalive:dead-peer', f'a client silent since its PING number {k + 1} is disconnected no later than pong_timeout after that PING', z3.ULE(res['quit_time'], dl)))
                        obs.append(('keepalive:error', 'the dropped client is sent an ERROR first', res['error']))
        else:
            obs.append(('keepalive:live-peer', 'a client that answers every PING within pong_timeout is never disconnected', res['quit_time'] is None))
            obs.append(('keepalive:ping', 'PINGs keep coming every ping_timeout seconds', len(res['pings']) >= case['periods']))
            for i, t in enumerate(res['pings']):
                obs.append(('keepalive:period', f'PING number {i + 1} is sent at {i + 1} x ping_timeout', (t if is_sym(t) else z3.BitVecVal(t, 64)) == P * (i + 1)))
        for oid, desc, term in obs:
            v, md = check_valid(M, term, st)
            if not v and md is not None:
                findings.append(dict(kind='obligation', site=oid, what=f'{case["name"]}: {desc}', predicate=oid + '|' + case['regime'],
                                     witness=dict(case=case['name'], client=case['client'], band=case.get('band'), P=md.eval(P, True).as_long(), Q=md.eval(Q, True).as_long(), delta=md.eval(res['delta'], True).as_long(),
                                                  log=[(a, str(md.eval(b, True)) if is_sym(b) else b) for a, b in res['log']][:12],
                                                  quit_time=(str(md.eval(res['quit_time'], True)) if is_sym(res['quit_time']) else res['quit_time']), profile=prog.profile)))
        if len(samples) < 1:
            samples.append(dict(case=case['name'], events=[(a, str(z3.simplify(b)) if is_sym(b) else b) for a, b in res['log']][:8], quit=str(res['quit_time'])))
    explore(prog, run, on, stats=st, prefix=case.get('prefix'), timeout_ms=budget['solver_ms'], max_steps=budget['steps'], max_paths=budget['paths'],
            deadline=(time.time() + budget['case_s']) if budget.get('case_s') else None)
    return dict(stats=st, findings=findings, samples=samples, nontrivial=nontriv[0], case=case['name'])

@judge('ping_pong')
def j_ping_pong(ctx):
    if ctx.outcome != 'ok': return []
    r = ref_parse(ctx.line.encode())
    if r[1].upper() != b'PING': return []
    tok = r[2][0]
    srv = server(ctx)
    want = relay_pred(srv, 'PONG', [srv, tok])
    k = [l for l in ctx.written if want(l)]
    obs = [('ping:pong', f'PING {tok!r} is answered with one PONG carrying the same token', len(k) == 1 and len(ctx.written) == 1)]
    obs += frame_obligations(ctx, lambda k_: False, 'ping:frame')
    return obs

def make_cases(tier, profile):
    cases = []
    periods = 2 if tier == 'quick' else 4
    bands = {'Q<P': ['d<P'], 'Q=P': ['d<P'], 'P<Q<2P': ['d<P', 'd=P', 'P<d<2P'], 'Q=2P': ['d<P', 'd=P', 'P<d<2P'], '2P<Q<3P': ['d<P', 'd=P', 'P<d<2P', 'd=2P', '2P<d']}
    if tier == 'quick': bands.update({'Q=2P': ['d<P', 'P<d<2P'], '2P<Q<3P': ['d<P', 'P<d<2P']})
    for regime in ['Q<P', 'Q=P', 'P<Q<2P', 'Q=2P', '2P<Q<3P']:
        cases.append(dict(name=f'silent client, {regime}', pure='keepalive', regime=regime, client='silent', periods=periods))
        cases.append(dict(name=f'client answering later than pong_timeout, {regime}', pure='keepalive', regime=regime, client='late', periods=periods))
        for b in bands[regime]:
            # bands with d = k*P put a PONG arrival on every PING instant: every order of the due tasks is explored there, so these cases are split over the workers
            tie = {'csplit': [('select_order', 2), ('task_order', 2), ('select_order', 2), ('task_order', 2)] + ([('select_order', 2), ('task_order', 2)] if tier != 'quick' else [])} if b in ('d=P', 'd=2P') else {}
            cases.append(dict(name=f'client answering every PING after a delay {b}, {regime}', pure='keepalive', regime=regime, client='answers', band=b, periods=periods, **tie))
            cases.append(dict(name=f'client that stops after one answer (delay {b}), {regime}', pure='keepalive', regime=regime, client=('stops_after', 1), band=b, periods=periods + 1))
    spec = dict(sym_caps=False, sym_max_joins=False, sym_topic=False, sym_key=False, sym_limit=False, sym_lists=False, sym_flags=False, sym_ranks=False, sym_invites=False, sym_away=False,
                sym_modes=False, plain_chans=['#x', '&y'], nicks=['alice', 'bob', 'carol'])
    for l in ['PING tok', 'PING :a token with blanks', 'PING :', 'PING x y', 'PING é']:
        cases.append(dict(name=l, line=l, judges=['no_panic', 'ping_pong'], spec=spec))
    return cases

BOUNDS = dict(durations='ping_timeout P and pong_timeout Q symbolic 64-bit seconds in [1, 2^20], in the four regimes Q<P, Q=P, P<Q<2P, Q=2P, 2P<Q<3P (Q>=3P outside); the answer delay of a responsive client symbolic below Q, split into bands (d<P, d=P, P<d<2P, d=2P, 2P<d) so that it may exceed the ping period when Q>P',
              horizon='2 (4) ping periods plus pong_timeout; clients: silent, answering every PING, stopping after one answer',
              outside='real scheduling slack (virtual time has none), other traffic on the connection during the wait, tokio time/interval/timeout/oneshot/spawn themselves (modelled by their documented contract)')

def native_live(run, P, Q, delay, stop_after=None):
    """real server, real clock: a client answering every PING `delay` seconds later (delay < Q) must stay connected;
    with stop_after=k it answers only the first k PINGs and must be dropped within Q of the first PING it did not answer"""
    import time as _t
    from mirsym import ircreplay as R
    from mirsym.world import Spec
    exe = run.snap.build_server(False)
    srv = R.Server(exe, R.make_config(Spec(ping_timeout=P, pong_timeout=Q), {}, {}, None), run.snap.dir, tag='live')
    try:
        c = R.Client(srv.port, 'live')
        c.send('NICK live'); c.send('USER live 0 * :Live')
        c.barrier()
        t0 = _t.time(); due = []; pings = 0; err = None; first_unanswered = None; t_end = None
        horizon = (3 * P + Q + 1.5) if stop_after is None else ((stop_after + 2) * P + 2 * Q + 1.5)
        while _t.time() - t0 < horizon:
            for l in c._read_lines(0.05):
                if b' PING ' in l or l.startswith(b'PING'):
                    pings += 1
                    if stop_after is None or pings <= stop_after: due.append(_t.time() + delay)
                    elif first_unanswered is None: first_unanswered = _t.time()
                if b'ERROR' in l: err = l; t_end = _t.time()
            while due and due[0] <= _t.time():
                due.pop(0); c.send('PONG :LALAL')
            if c.eof or err: break
        dropped = bool(err) or c.eof
        c.close()
        if pings == 0: return None, 'no PING seen'
        if stop_after is not None:
            if first_unanswered is None: return None, 'the client was dropped before it stopped answering'
            if not dropped: return True, f'P={P} Q={Q} delay {delay}s, silent after {stop_after} answer(s): still connected {round(_t.time() - first_unanswered, 1)}s after the first unanswered PING (limit {Q}s)'
            late = (t_end or _t.time()) - first_unanswered
            return (late > Q + 1.2), f'P={P} Q={Q} delay {delay}s, silent after {stop_after} answer(s): dropped {round(late, 2)}s after the first unanswered PING (limit {Q}s)'
        return dropped, f'P={P} Q={Q} answer delay {delay}s: ' + (f'dropped after {round(_t.time() - t0, 1)}s ({err!r})' if dropped else f'still connected after {pings} PINGs')
    finally:
        srv.stop()

def native_period(run, P, Q):
    """real server, real clock: a client answering at once must see PINGs at P, 2P, 3P after its registration"""
    import time as _t
    from mirsym import ircreplay as R
    from mirsym.world import Spec
    exe = run.snap.build_server(False)
    srv = R.Server(exe, R.make_config(Spec(ping_timeout=P, pong_timeout=Q), {}, {}, None), run.snap.dir, tag='period')
    try:
        c = R.Client(srv.port, 'per')
        c.send('NICK per'); c.send('USER per 0 * :Per')
        c.barrier()
        t0 = _t.time(); seen = []
        while _t.time() - t0 < 3 * P + 1.5 and len(seen) < 3 and not c.eof:
            for l in c._read_lines(0.05):
                if b' PING ' in l or l.startswith(b'PING'):
                    seen.append(round(_t.time() - t0, 2)); c.send('PONG :LALAL')
        c.close()
        want = [P * (i + 1) for i in range(3)]
        bad = len(seen) < 3 or any(abs(a - b) > 0.8 for a, b in zip(seen, want))
        return bad, f'P={P} Q={Q}: PINGs seen {seen} s after registration, expected about {want}'
    finally:
        srv.stop()

def native_timer(run, P, Q, rounds=1):
    """real server, real clock: a silent client must be dropped about Q seconds after its first PING"""
    import time as _t
    from mirsym import ircreplay as R
    from mirsym.world import Spec
    spec = Spec(ping_timeout=P, pong_timeout=Q)
    exe = run.snap.build_server(False)
    srv = R.Server(exe, R.make_config(spec, {}, {}, None), run.snap.dir, tag='timer')
    try:
        c = R.Client(srv.port, 'silent')
        c.send('NICK silent'); c.send('USER silent 0 * :Silent')
        c.barrier()
        t0 = _t.time(); first = None; end = None
        while _t.time() - t0 < P + Q + 2 * P + 3:
            for l in c._read_lines(0.25):
                if b'PING' in l and first is None: first = _t.time()
                if b'ERROR' in l: end = _t.time()
            if c.eof:
                end = end or _t.time(); break
        c.close()
        if first is None: return None, 'no PING seen'
        if end is None: return True, f'P={P} Q={Q}: silent client still connected {round(_t.time() - first, 1)}s after its first unanswered PING (limit {Q}s)'
        return (end - first > Q + 1.5), f'P={P} Q={Q}: dropped {round(end - first, 2)}s after the first PING'
    finally:
        srv.stop()

def native_replay(run, rp):
    if rp.get('kind') == 'period': return native_period(run, rp['P'], rp['Q'])
    if rp.get('kind') == 'live': return native_live(run, rp['P'], rp['Q'], rp['delay'], rp.get('stop_after'))
    return native_timer(run, rp['P'], rp['Q'])

def confirm(run, cands):
    # differential validation of the timer models on the real clock: a silent client with P=1 s, Q=2 s (a regime where PINGs overlap the wait)
    if not any(f['site'].startswith('keepalive:dead-peer') for f in cands):
        try:
            bad, text = native_timer(run, 1, 2)
        except Exception as e:
            bad, text = None, 'native timer run failed: ' + repr(e)[:300]
        run.extra['native_timer_validation'] = text
        if bad is False: run.native_replays += 1; run.validation_vectors += 1
        else: run.inconclusive.append('ENCODER-MISMATCH: the virtual-clock model predicts a drop pong_timeout after the first unanswered PING, the real server: ' + str(text))
    for f in cands:
        fi = Finding(PROP, f['kind'], f['site'], f['what'], f['witness'], role=dict(predicate=f.get('predicate', '')))
        w = f['witness']
        if f['site'].startswith('keepalive:dead-peer') and isinstance(w.get('client'), (tuple, list)):
            reg = f.get('predicate', '').split('|')[-1]
            P, Q = {'Q<P': (3, 2), 'Q=P': (2, 2), 'P<Q<2P': (2, 3), 'Q=2P': (1, 2), '2P<Q<3P': (2, 5)}.get(reg, (2, 2))
            frac = (w.get('delta', 0) / w['Q']) if w.get('Q') else 0.5
            delay = round(min(Q - 0.4, max(0.0, frac * Q)), 2)
            try:
                okk, text = native_live(run, P, Q, delay, stop_after=w['client'][1])
            except Exception as e:
                okk, text = None, 'native run failed: ' + repr(e)[:300]
            fi.confirmed = True if okk else None; fi.native = text
            fi.replay = dict(kind='live', P=P, Q=Q, delay=delay, stop_after=w['client'][1])
            if okk: run.native_replays += 1
        elif f['site'].startswith('keepalive:dead-peer'):
            # replay on the real clock with small durations of the same regime
            reg = f.get('predicate', '').split('|')[-1]
            P, Q = {'Q<P': (3, 1), 'Q=P': (2, 2), 'P<Q<2P': (2, 3), 'Q=2P': (1, 2), '2P<Q<3P': (2, 5)}.get(reg, (2, 2))
            try:
                okk, text = native_timer(run, P, Q)
            except Exception as e:
                okk, text = None, 'native timer run failed: ' + repr(e)[:300]
            fi.confirmed = True if okk else None; fi.native = text
            fi.replay = dict(kind='timer', P=P, Q=Q)
            if okk: run.native_replays += 1
        elif f['site'].startswith(('keepalive:period', 'keepalive:ping')):
            reg = f.get('predicate', '').split('|')[-1]
            P, Q = {'Q<P': (2, 1), 'Q=P': (2, 2), 'P<Q<2P': (2, 3), 'Q=2P': (1, 2), '2P<Q<3P': (2, 5)}.get(reg, (2, 2))
            try:
                okk, text = native_period(run, P, Q)
            except Exception as e:
                okk, text = None, 'native run failed: ' + repr(e)[:300]
            fi.confirmed = True if okk else None; fi.native = text
            fi.replay = dict(kind='period', P=P, Q=Q)
            if okk: run.native_replays += 1
        elif f['site'].startswith('keepalive:live-peer'):
            reg = f.get('predicate', '').split('|')[-1]
            # small durations of the same regime; the answer delay scaled from the counterexample (delta/Q of the way to pong_timeout)
            P, Q = {'Q<P': (3, 2), 'Q=P': (2, 2), 'P<Q<2P': (2, 3), 'Q=2P': (1, 2), '2P<Q<3P': (2, 5)}.get(reg, (2, 2))
            frac = (w.get('delta', 0) / w['Q']) if w.get('Q') else 0.5
            delay = round(min(Q - 0.4, max(0.0, frac * Q)), 2)
            try:
                okk, text = native_live(run, P, Q, delay)
            except Exception as e:
                okk, text = None, 'native run failed: ' + repr(e)[:300]
            fi.confirmed = True if okk else None; fi.native = text
            fi.replay = dict(kind='live', P=P, Q=Q, delay=delay)
            if okk: run.native_replays += 1
        elif 'world' in w:
            from mirsym import ircreplay
            ircreplay.confirm_findings(run, [f]); continue
        else:
            fi.confirmed = None; fi.native = 'no native replay for this keep-alive obligation'
        run.add_finding(fi)

if __name__ == '__main__':
    run_property(PROP, sys.argv[1], int(sys.argv[2]), make_cases, BOUNDS,
                 ['sleep(d) wakes at now+d; interval(d) ticks at now, now+d, ...; timeout(d, f) is Err iff f is not ready by now+d; a dropped oneshot sender resolves its receiver with Err; spawn runs the task'],
                 confirm=confirm)
