// Replay shim for the verification machinery (never committed to the repository: it is appended to a
// scratch copy of the crate as `state::verif_replay` behind `--cfg sirc_verif`).
//
// Reads requests from the file named by SIRC_REPLAY_FILE, one per line:  <fn> \t <hex arg> \t <hex arg> ...
// and prints, per request,                                           R \t <index> \t ok|panic \t <hex result>
// The functions are the crate's own, called natively.
#![allow(dead_code, unused_imports)]

use super::structs::*;
use crate::command::*;
use crate::config::*;
use crate::utils::*;
use std::panic;

fn unhex(s: &str) -> Vec<u8> {
    (0..s.len() / 2)
        .map(|i| u8::from_str_radix(&s[2 * i..2 * i + 2], 16).unwrap())
        .collect()
}

fn hex(b: &[u8]) -> String {
    b.iter().map(|x| format!("{:02x}", x)).collect()
}

fn arg(args: &[String], i: usize) -> String {
    String::from_utf8(unhex(&args[i])).expect("replay arguments must be valid UTF-8")
}

fn dispatch(f: &str, args: &[String]) -> String {
    match f {
        "match_wildcard" => format!("{}", match_wildcard(&arg(args, 0), &arg(args, 1))),
        "normalize_sourcemask" => normalize_sourcemask(&arg(args, 0)),
        "validate_source" => format!("{}", validate_source(&arg(args, 0))),
        "validate_username" => format!("{}", validate_username(&arg(args, 0)).is_ok()),
        "validate_channel" => format!("{}", validate_channel(&arg(args, 0)).is_ok()),
        "validate_server" => format!(
            "{}",
            validate_server(&arg(args, 0), MessageError::Empty).is_ok()
        ),
        "validate_server_mask" => format!(
            "{}",
            validate_server_mask(&arg(args, 0), MessageError::Empty).is_ok()
        ),
        "validate_prefixed_channel" => format!(
            "{}",
            validate_prefixed_channel(&arg(args, 0), MessageError::Empty).is_ok()
        ),
        "validate_password_hash" => format!("{}", validate_password_hash(&arg(args, 0)).is_ok()),
        "get_privmsg_target_type" => {
            let a = arg(args, 0);
            let (t, s) = get_privmsg_target_type(&a);
            format!("{}|{}", t.bits(), s)
        }
        "from_shared_str" => {
            let a = arg(args, 0);
            format!("{:?}", Message::from_shared_str(&a))
        }
        "codec_decode_all" => {
            // the real IRCLinesCodec over a buffer: decode until it reports that no complete frame is left
            use tokio_util::codec::Decoder;
            let a = arg(args, 0);
            let mut codec = IRCLinesCodec::new_with_max_length(2000);
            let mut buf = bytes::BytesMut::from(a.as_bytes());
            let mut out: Vec<String> = vec![];
            for _ in 0..16 {
                match codec.decode(&mut buf) {
                    Ok(Some(l)) => out.push(l),
                    Ok(None) => break,
                    Err(e) => {
                        out.push(format!("<error {}>", e));
                        break;
                    }
                }
            }
            format!("{:?}", out)
        }
        "from_message" => {
            let a = arg(args, 0);
            match Message::from_shared_str(&a) {
                Ok(m) => format!("{:?}", Command::from_message(&m)),
                Err(e) => format!("MessageError::{:?}", e),
            }
        }
        "relay_roundtrip" => {
            // parse a line, serialise it with a source as relays do, parse the result again
            let a = arg(args, 0);
            let src = arg(args, 1);
            match Message::from_shared_str(&a) {
                Ok(m) => {
                    let out = m.to_string_with_source(&src);
                    let again = format!("{:?}", Message::from_shared_str(&out));
                    format!("{:?}\n{}\n{}", m, out, again)
                }
                Err(e) => format!("MessageError::{:?}", e),
            }
        }
        "encode" => {
            use bytes::BytesMut;
            use tokio_util::codec::Encoder;
            let mut c = IRCLinesCodec::new_with_max_length(2000);
            let mut b = BytesMut::new();
            c.encode(arg(args, 0), &mut b).unwrap();
            hex(&b[..])
        }
        "usermodes_to_string" => {
            let a = unhex(&args[0]);
            let m = UserModes {
                invisible: a[0] != 0,
                oper: a[1] != 0,
                local_oper: a[2] != 0,
                registered: a[3] != 0,
                wallops: a[4] != 0,
            };
            m.to_string()
        }
        _ => panic!("verif_replay: unknown function {}", f),
    }
}

#[test]
fn replay() {
    let path = match std::env::var("SIRC_REPLAY_FILE") {
        Ok(p) => p,
        Err(_) => return,
    };
    let text = std::fs::read_to_string(&path).unwrap();
    println!();
    panic::set_hook(Box::new(|_| {}));
    for (i, line) in text.lines().enumerate() {
        if line.is_empty() {
            continue;
        }
        let parts: Vec<String> = line.split('\t').map(|x| x.to_string()).collect();
        let f = parts[0].clone();
        let args: Vec<String> = parts[1..].to_vec();
        let r = panic::catch_unwind(|| dispatch(&f, &args));
        match r {
            Ok(s) => println!("R\t{}\tok\t{}", i, hex(s.as_bytes())),
            Err(e) => {
                let msg = if let Some(s) = e.downcast_ref::<String>() {
                    s.clone()
                } else if let Some(s) = e.downcast_ref::<&str>() {
                    s.to_string()
                } else {
                    "?".to_string()
                };
                println!("R\t{}\tpanic\t{}", i, hex(msg.as_bytes()));
            }
        }
    }
    let _ = panic::take_hook();
}
