#!/bin/bash
# runs every registered check (quick by default) and prints one status line each
cd "$(dirname "$0")/.."
TIER="${1:-quick}"
for id in $(python3 -c "import json;print(' '.join(c['property_id'] for c in json.load(open('MANIFEST.json'))['checks']))"); do
  s=$(date +%s)
  out=$(./check $id --tier $TIER 2>&1); rc=$?
  e=$(date +%s)
  echo "$id rc=$rc $((e-s))s $(echo "$out" | grep -c '^VIOLATION') violations $(echo "$out" | grep -c '^KNOWN-FINDING') known | $(echo "$out" | grep "^$id $TIER" | cut -c1-160)"
  if [ $rc -ne 0 ]; then echo "$out" | grep -v "^  witness" | tail -5 | cut -c1-400; fi
done
