#!/bin/bash
# tools/confirm_seed.sh <agent worktree> <name> "<props>" : independent confirmation of a seeded change in a fresh scratch worktree
set -u
WT=$1; NAME=$2; PROPS=$3
SEED=$WT/SEED
CF=/tmp/cf_$NAME
git -C /repo worktree remove --force $CF 2>/dev/null
git -C /repo worktree add --detach $CF HEAD -q || exit 1
export CARGO_TARGET_DIR=$WT/target CARGO_NET_OFFLINE=true
DEMO=$(ls $SEED/demo.* | head -1)
TEST=$(grep -o '^+ *async fn test_[a-z0-9_]*\|^+ *fn test_[a-z0-9_]*' $DEMO | head -1 | sed 's/.*fn //')
echo "demo=$DEMO test=$TEST"
cd $CF
git apply $DEMO || { echo "DEMO DOES NOT APPLY"; exit 1; }
R1=$(unshare -n sh -c "ip link set lo up; cargo test --offline $TEST 2>&1" | grep "test result" | head -1)
echo "without change: $R1"
git apply $SEED/patch.diff || { echo "PATCH DOES NOT APPLY"; exit 1; }
B=$(cargo build --offline 2>&1 | tail -1)
R2=$(unshare -n sh -c "ip link set lo up; cargo test --offline $TEST 2>&1" | grep "test result" | head -1)
echo "with change: build: $B ; demo: $R2"
R3=$(cargo test --offline -- --test-threads 4 utils:: command:: config:: reply:: state::structs:: 2>&1 | grep "test result" | head -1)
echo "stable tests with change: $R3"
mkdir -p /verif/seeded/$NAME
cp $SEED/patch.diff /verif/seeded/$NAME/patch.diff
cp $DEMO /verif/seeded/$NAME/
cp $SEED/NOTES.md /verif/seeded/$NAME/NOTES.md 2>/dev/null
python3 - <<PY
import json
json.dump(dict(name="$NAME", breaks="$PROPS".split(), source="independent sub-agent given only the property text and a scratch worktree",
  demo_test="$TEST", confirmed=dict(demo_without_change="$R1", demo_with_change="$R2", build="$B", stable_tests_with_change="$R3"),
  needs=open("$SEED/NOTES.md").read()[:1500] if __import__('os').path.exists("$SEED/NOTES.md") else ""), open("/verif/seeded/$NAME/meta.json","w"), indent=1)
PY
cd /; git -C /repo worktree remove --force $CF
