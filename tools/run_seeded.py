#!/usr/bin/env python3
"""Apply each seeded change to /repo, run the checks of the properties it breaks, record what was reported, undo.
usage: tools/run_seeded.py [name ...]   (default: all under /verif/seeded)"""
import os, sys, subprocess, json, time
HERE = os.path.dirname(os.path.dirname(os.path.abspath(__file__)))
SEED = os.path.join(HERE, 'seeded')
def sh(cmd, **kw): return subprocess.run(cmd, shell=True, capture_output=True, text=True, **kw)
names = sys.argv[1:] or sorted(d for d in os.listdir(SEED) if os.path.isdir(os.path.join(SEED, d)))
assert sh('git -C /repo status --porcelain').stdout.strip() == '', '/repo has uncommitted changes'
results = {}
for n in names:
    d = os.path.join(SEED, n)
    meta = json.load(open(os.path.join(d, 'meta.json'))) if os.path.exists(os.path.join(d, 'meta.json')) else {}
    props = meta.get('breaks') or open(os.path.join(d, '.props')).read().split()
    r = sh(f'git -C /repo apply {d}/patch.diff')
    if r.returncode != 0:
        print(n, 'PATCH DOES NOT APPLY', r.stderr[:200]); continue
    try:
        for p in props:
            t = time.time()
            o = sh(f'cd {HERE} && ./check {p} --tier quick')
            viol = [l for l in o.stdout.splitlines() if l.startswith('VIOLATION')]
            first = [l.strip() for l in o.stdout.splitlines() if l.startswith('  ') and not l.startswith('  witness')][:3]
            results[(n, p)] = dict(rc=o.returncode, violations=len(viol), first=first, wall=round(time.time() - t))
            print(f'{n:32s} {p} rc={o.returncode} violations={len(viol)} {round(time.time()-t)}s | {first[:1]}', flush=True)
            if o.returncode == 2:
                print('   ', [l[:300] for l in o.stdout.splitlines() if l.startswith(('INCONCLUSIVE', 'NON-REPRODUCING'))][:3])
    finally:
        sh('git -C /repo checkout -- .')
rp = os.path.join(HERE, 'seeded', 'results.json')
allr = json.load(open(rp)) if os.path.exists(rp) else {}
allr.update({f'{k[0]}|{k[1]}': v for k, v in results.items()})
json.dump(allr, open(rp, 'w'), indent=1, sort_keys=True)
