#!/usr/bin/env python3
"""Regenerates MANIFEST.json from the table below (kept valid at all times)."""
import json, os
HERE = os.path.dirname(os.path.dirname(os.path.abspath(__file__)))
TECH = 'bounded symbolic execution of the crate\'s rustc MIR (regenerated from /repo each run) with z3 deciding every branch and obligation; counterexamples replayed natively'
BASE_NOTE = ('Trusted base: the mirsym interpreter and its listed environment models of std/tokio (validated each run against native executions), '
             'z3, the pinned nightly\'s MIR dump; bounds as stated in the evidence file; inputs are valid UTF-8.')
CHECKS = {
 'C14': dict(text='Every path of match_wildcard / starts_single_wilcards / normalize_sourcemask / ChannelModes::banned over symbolic byte strings within the stated length bounds is executed from the crate\'s MIR; per path the solver proves "no panic" and "result == reference glob (z3 DP term)" / "== three-case completion, idempotent". Bounded model checking, not a proof: longer strings are outside the claim.',
             ref='DESIGN.md §7 C14, §12'),
}
NA_REASON = {}
def main():
    props = [json.loads(l)['id'] for l in open(os.path.join(HERE, 'properties.jsonl'))]
    extra = json.load(open(os.path.join(HERE, 'tools', 'manifest_table.json'))) if os.path.exists(os.path.join(HERE, 'tools', 'manifest_table.json')) else {}
    checks_tab = dict(CHECKS); checks_tab.update(extra.get('checks', {}))
    na = dict(NA_REASON); na.update(extra.get('not_applicable', {}))
    checks = []
    for pid in props:
        if pid not in checks_tab: continue
        c = checks_tab[pid]
        checks.append(dict(property_id=pid, quick_cmd=f'./check {pid} --tier quick', thorough_cmd=f'./check {pid} --tier thorough',
                           evidence_file=f'/verif/evidence/{pid}.json', replay_cmd_template=f'./check {pid} --replay {{path}}', engine='mirsym',
                           level_claimed=dict(category='model_checking', text=c['text'], design_ref=c.get('ref', 'DESIGN.md §7')),
                           level_note=c.get('note', BASE_NOTE), technique=c.get('technique', TECH)))
    m = dict(version=1,
             setup_cmd='./setup.sh',
             hooks=dict(guard='sirc_verif', enable='no hooks in /repo: the replay shim native/verif_replay.rs is appended to a scratch copy of the crate and compiled with RUSTFLAGS="--cfg sirc_verif"',
                        baseline_off_cmd='cd /repo && cargo test --workspace --no-fail-fast --offline', source_commits=[], add_only=True),
             engines=[dict(name='mirsym', path='/verif/mirsym', serves_properties=[c['property_id'] for c in checks],
                           kind_free_text='symbolic executor for rustc MIR text (python + z3): DART-style path exploration, solver-decided branches and obligations, environment models for std/tokio, native replay of counterexamples')],
             checks=checks,
             notes='Exit codes: 0 held within bounds; 1 VIOLATION (natively reproduced); 2 inconclusive (encoder gap, bound hit, solver unknown, non-reproducing counterexample). See DESIGN.md.',
             not_applicable=[dict(property_id=p, reason=na.get(p, 'no check registered yet: the handler-level harness for this property has not been built in this session (see DESIGN.md §12 status)')) for p in props if p not in checks_tab])
    json.dump(m, open(os.path.join(HERE, 'MANIFEST.json'), 'w'), indent=1)
    print('checks:', [c['property_id'] for c in checks], 'n/a:', len(m['not_applicable']))
main()
