#!/bin/bash
# tools/confirm_seed2.sh <agent worktree> <name> "<props>" : independent confirmation of a seeded change whose
# demonstration is a script (<wt>/_seed/demo.sh <tree>; exit 0 = property observed, non-zero = broken) in a fresh scratch worktree
set -u
WT=$1; NAME=$2; PROPS=$3
SEED=$WT/_seed
CF=/var/tmp/cf_$NAME
git -C /repo worktree remove --force $CF 2>/dev/null
git -C /repo worktree add --detach $CF HEAD -q || exit 1
export CARGO_NET_OFFLINE=true
cd $CF
unshare -n sh -c "ip link set lo up; bash $SEED/demo.sh $CF" > /var/tmp/cf_$NAME.without.log 2>&1; RC1=$?
echo "without change: demo rc=$RC1"
git apply $SEED/patch.diff || { echo "PATCH DOES NOT APPLY"; exit 1; }
touch src/main.rs
B=$(cargo build --offline 2>&1 | tail -1)
unshare -n sh -c "ip link set lo up; bash $SEED/demo.sh $CF" > /var/tmp/cf_$NAME.with.log 2>&1; RC2=$?
echo "with change: build: $B ; demo rc=$RC2"
R3=$(cargo test --offline -- --test-threads 4 utils:: command:: config:: reply:: state::structs:: 2>&1 | grep "test result" | head -1)
echo "stable tests with change: $R3"
mkdir -p /verif/seeded/$NAME
cp $SEED/patch.diff /verif/seeded/$NAME/patch.diff
for f in $SEED/*; do case $(basename $f) in patch.diff|meta.json) ;; *) [ -f $f ] && cp $f /verif/seeded/$NAME/ ;; esac; done
python3 - <<PY
import json, os
am = json.load(open("$SEED/meta.json")) if os.path.exists("$SEED/meta.json") else {}
json.dump(dict(name="$NAME", breaks="$PROPS".split(), source="independent sub-agent given only the property text and a scratch worktree",
  demo="demo.sh <tree> (exit 0 = property observed)", site=am.get("site",""), summary=am.get("summary",""), needs=am.get("needs",""),
  confirmed=dict(demo_rc_without_change=$RC1, demo_rc_with_change=$RC2, build="$B", stable_tests_with_change="$R3")),
  open("/verif/seeded/$NAME/meta.json","w"), indent=1)
PY
tail -3 /var/tmp/cf_$NAME.with.log
cd /; git -C /repo worktree remove --force $CF; rm -f /var/tmp/cf_$NAME.*.log
