#!/usr/bin/env python3
"""Rewrites the seeded-change table in DESIGN.md (between the markers) from seeded/*/meta.json and seeded/results.json."""
import json, os, re
HERE = os.path.dirname(os.path.dirname(os.path.abspath(__file__)))
res = json.load(open(os.path.join(HERE, 'seeded', 'results.json')))
rows = []
for n in sorted(os.listdir(os.path.join(HERE, 'seeded'))):
    d = os.path.join(HERE, 'seeded', n)
    if not os.path.isdir(d): continue
    meta = json.load(open(os.path.join(d, 'meta.json'))) if os.path.exists(os.path.join(d, 'meta.json')) else {}
    per = []
    for k, v in sorted(res.items()):
        nn, p = k.split('|')
        if nn != n: continue
        first = (v['first'][0] if v['first'] else '').split(': ')[0].replace('obligation at ', '').replace('mismatch at ', '').replace('panic at ', 'panic ')
        per.append(f"{p}: {'VIOLATION' if v['rc'] == 1 else ('inconclusive' if v['rc'] == 2 else 'missed')}" + (f" ({first[:48]})" if v['rc'] == 1 else ''))
    src = 'original defect' if n.startswith('orig-') else 'sub-agent'
    rows.append(f"| `{n}` | {src} | {', '.join(meta.get('breaks', []))} | {'; '.join(per) or 'not run'} |")
table = "| seeded change | source | breaks | reported by (quick tier) |\n|---|---|---|---|\n" + '\n'.join(rows)
p = os.path.join(HERE, 'DESIGN.md'); s = open(p).read()
a, b = '<!-- seeded-table-begin -->', '<!-- seeded-table-end -->'
s = s[:s.index(a) + len(a)] + '\n' + table + '\n' + s[s.index(b):]
open(p, 'w').write(s)
print(len(rows), 'rows')
