"""Snapshot /repo's working tree and regenerate the MIR dumps (and, when needed, native replay builds).

Every check run copies the *current* working tree of /repo (tracked or not) to a scratch directory outside
/repo, /verif and /tmp, dumps MIR from that copy with the pinned nightly, and removes the scratch directory
at exit.  Only third-party dependency artifacts are cached (under /verif/.cache, built by setup).
"""
import os, subprocess, sys, shutil, atexit, time, hashlib, re, fcntl

REPO = os.environ.get('VERIF_REPO', '/repo')
VERIF = os.path.dirname(os.path.dirname(os.path.abspath(__file__)))
CACHE = os.path.join(VERIF, '.cache')
SCRATCH_BASE = os.environ.get('VERIF_SCRATCH', '/var/tmp')
GUARD_CFG = 'sirc_verif'

def env_offline(extra=None):
    e = dict(os.environ)
    e['CARGO_NET_OFFLINE'] = 'true'
    e.pop('RUSTFLAGS', None)
    if extra: e.update(extra)
    return e

class BuildError(Exception):
    pass

class Snapshot:
    def __init__(self, keep=False):
        os.makedirs(CACHE, exist_ok=True)
        self.dir = os.path.join(SCRATCH_BASE, f'sircv.{os.getpid()}.{int(time.time()*1000) % 100000}')
        self.src = os.path.join(self.dir, 'w')
        os.makedirs(self.dir)
        if not keep:
            atexit.register(self.cleanup)
        r = subprocess.run(['rsync', '-a', '--exclude', 'target', '--exclude', '.git', REPO.rstrip('/') + '/', self.src + '/'],
                           capture_output=True, text=True)
        if r.returncode != 0:
            raise BuildError('rsync failed: ' + r.stderr[-500:])
        self.mir = {}
        self.tree_hash = self._hash()
        self.timings = {}

    def _hash(self):
        h = hashlib.sha256()
        for dp, dn, fs in os.walk(self.src):
            dn.sort()
            for f in sorted(fs):
                p = os.path.join(dp, f)
                if p.endswith(('.rs', '.toml', '.lock')):
                    h.update(p[len(self.src):].encode()); h.update(open(p, 'rb').read())
        return h.hexdigest()[:16]

    def cleanup(self):
        shutil.rmtree(self.dir, ignore_errors=True)

    def dump_mir(self, profile='dev'):
        """profile: dev (overflow checks on), rel (off), test (dev + #[test] functions)"""
        if profile in self.mir:
            return self.mir[profile]
        out = os.path.join(self.dir, profile + '.mir')
        tdir = os.path.join(CACHE, 'mir-target')
        os.makedirs(tdir, exist_ok=True)
        oc = 'off' if profile == 'rel' else 'on'
        cmd = ['cargo', '+nightly', 'rustc', '--offline', '--bin', 'simple-irc-server', '--target-dir', tdir]
        if profile == 'test':
            cmd += ['--profile', 'test']
        cmd += ['--', '-Zunpretty=mir', '-Ztrim-diagnostic-paths=no', '-Zmir-include-spans=yes',
                '-C', 'debug-assertions=off', '-C', 'overflow-checks=' + oc, '-A', 'warnings']
        t = time.time()
        lock = open(os.path.join(CACHE, 'mir-target.lock'), 'w')
        fcntl.flock(lock, fcntl.LOCK_EX)
        try:
            # make sure cargo re-runs rustc for this copy
            os.utime(os.path.join(self.src, 'src', 'main.rs'))
            with open(out, 'w') as fo:
                r = subprocess.run(cmd, cwd=self.src, stdout=fo, stderr=subprocess.PIPE, text=True, env=env_offline())
        finally:
            fcntl.flock(lock, fcntl.LOCK_UN); lock.close()
        self.timings['mir_' + profile] = round(time.time() - t, 2)
        if r.returncode != 0 or os.path.getsize(out) < 1000:
            raise BuildError(f'MIR dump ({profile}) failed:\n' + r.stderr[-3000:])
        self.mir[profile] = out
        return out

    # native builds ---------------------------------------------------------------------------------
    def build_replay_tests(self, release=False):
        """build the crate's test harness with the replay shim appended (in the scratch copy only); returns binary path"""
        key = 'replay_rel' if release else 'replay_dev'
        if key in self.mir: return self.mir[key]
        shim_src = os.path.join(VERIF, 'native', 'verif_replay.rs')
        dst = os.path.join(self.src, 'src', 'state', 'verif_replay.rs')
        if not os.path.exists(dst):
            shutil.copy(shim_src, dst)
            with open(os.path.join(self.src, 'src', 'state', 'mod.rs'), 'a') as f:
                f.write('\n#[cfg(%s)]\nmod verif_replay;\n' % GUARD_CFG)
        tdir = os.path.join(CACHE, 'replay-target')
        cmd = ['cargo', 'test', '--offline', '--no-run', '--message-format=json', '--target-dir', tdir]
        if release: cmd.append('--release')
        t = time.time()
        lock = open(os.path.join(CACHE, 'replay-target.lock'), 'w')
        fcntl.flock(lock, fcntl.LOCK_EX)
        try:
            # cargo judges freshness of a path package by mtimes: a tree whose files are older than the cached output (another tree built in
            # between, a restore that keeps old mtimes) would silently reuse a stale binary - force the crate itself to be recompiled
            now = time.time()
            os.utime(os.path.join(self.src, 'src', 'main.rs'), (now, now))
            r = subprocess.run(cmd, cwd=self.src, capture_output=True, text=True,
                               env=env_offline({'RUSTFLAGS': f'--cfg {GUARD_CFG} -A warnings'}))
            exe = None
            import json
            for line in r.stdout.splitlines():
                try: j = json.loads(line)
                except ValueError: continue
                if j.get('reason') == 'compiler-artifact' and j.get('executable') and j.get('profile', {}).get('test'):
                    exe = j['executable']
            if r.returncode != 0 or not exe:
                raise BuildError('replay test build failed:\n' + r.stderr[-3000:])
            # copy the binary out of the shared target dir so later builds cannot replace it under us
            mine = os.path.join(self.dir, key)
            shutil.copy(exe, mine)
        finally:
            fcntl.flock(lock, fcntl.LOCK_UN); lock.close()
        self.timings[key] = round(time.time() - t, 2)
        self.mir[key] = mine
        return mine

    def build_server(self, release=False):
        key = 'server_rel' if release else 'server_dev'
        if key in self.mir: return self.mir[key]
        tdir = os.path.join(CACHE, 'server-target')
        cmd = ['cargo', 'build', '--offline', '--target-dir', tdir]
        if release: cmd.append('--release')
        t = time.time()
        lock = open(os.path.join(CACHE, 'server-target.lock'), 'w')
        fcntl.flock(lock, fcntl.LOCK_EX)
        try:
            # build from a pristine copy of the tree (without the replay shim)
            src = self.src
            if os.path.exists(os.path.join(self.src, 'src', 'state', 'verif_replay.rs')):
                src = os.path.join(self.dir, 'w_server')
                if not os.path.exists(src):
                    subprocess.run(['rsync', '-a', '--exclude', 'target', '--exclude', '.git', REPO.rstrip('/') + '/', src + '/'], check=True)
            now = time.time()
            os.utime(os.path.join(src, 'src', 'main.rs'), (now, now))       # see build_replay_tests: never reuse a binary of another tree
            r = subprocess.run(cmd, cwd=src, capture_output=True, text=True, env=env_offline({'RUSTFLAGS': '-A warnings'}))
            if r.returncode != 0:
                raise BuildError('server build failed:\n' + r.stderr[-3000:])
            exe = os.path.join(tdir, 'release' if release else 'debug', 'simple-irc-server')
            mine = os.path.join(self.dir, key)
            shutil.copy(exe, mine)
        finally:
            fcntl.flock(lock, fcntl.LOCK_UN); lock.close()
        self.timings[key] = round(time.time() - t, 2)
        self.mir[key] = mine
        return mine

def setup():
    """build dependency artifacts once (MANIFEST.setup_cmd)"""
    s = Snapshot()
    t = time.time()
    s.dump_mir('dev'); print('mir dev', s.timings, flush=True)
    s.dump_mir('test'); print('mir test', s.timings, flush=True)
    s.build_server(False); print('server dev', s.timings, flush=True)
    s.build_replay_tests(False); print('replay dev', s.timings, flush=True)
    s.build_server(True); print('server rel', s.timings, flush=True)
    s.build_replay_tests(True); print('replay rel', s.timings, flush=True)
    print('setup done in %.0fs' % (time.time() - t))
    s.cleanup()

if __name__ == '__main__':
    setup()
