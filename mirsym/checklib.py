"""Common machinery of the per-property checks: program loading, findings, native replay, evidence, verdicts."""
import os, sys, json, time, subprocess, re, hashlib
import z3
from . import mir
from .machine import Program
from .build import Snapshot, BuildError, VERIF
from .explore import Stats
from .values import *

EVIDENCE_DIR = os.environ.get('VERIF_EVIDENCE_DIR') or os.path.join(VERIF, 'evidence')   # (development runs may divert it; registered commands never set it)
OUT_DIR = os.path.join(VERIF, 'out')
KNOWN_FILE = os.path.join(VERIF, 'known-findings.json')

class Inconclusive(Exception):
    pass

def load_program(snap, profile):
    path = snap.dump_mir(profile)
    fns, dups = mir.load_mir(path)
    allocs = {}
    rx = re.compile(r'^(alloc\d+) \(static: ([^,]+),')
    with open(path, errors='surrogateescape') as f:
        for line in f:
            if line.startswith('alloc'):
                m = rx.match(line)
                if m: allocs[m.group(1)] = m.group(2)
    prog = Program(fns, snap.src, allocs)
    prog.profile = profile
    return prog

class Finding:
    """a candidate violation: found by the solver, to be replayed natively before it is reported"""
    def __init__(self, prop, kind, site, what, witness, role=None, replay=None):
        self.prop, self.kind, self.site, self.what, self.witness = prop, kind, site, what, witness
        self.role = role or {}
        self.replay = replay          # dict describing how to replay natively
        self.confirmed = None
        self.native = None
    def key(self):
        return (self.kind, self.site, self.role.get('predicate', ''))
    def to_dict(self):
        return dict(property=self.prop, kind=self.kind, site=self.site, what=self.what, witness=self.witness, role=self.role,
                    replay=self.replay, confirmed=self.confirmed, native=self.native)

class CheckRun:
    def __init__(self, prop, tier, seed, level='model_checking'):
        self.prop, self.tier, self.seed, self.level = prop, tier, seed, level
        self.t0 = time.time()
        self.stats = Stats()
        self.findings = []
        self.samples = []
        self.notes = []
        self.bounds = {}
        self.assumptions = []
        self.functions = set()
        self.models = set()
        self.inconclusive = []
        self.native_replays = 0
        self.validation_vectors = 0
        self.cross_checked = 0
        self.nontrivial = 0
        self.snap = None
        self.progs = {}
        self.profiles = []
        self.extra = {}

    # setup ---------------------------------------------------------------------------------------
    def prepare(self, profiles=('dev',)):
        try:
            self.snap = Snapshot()
            for p in profiles:
                self.progs[p] = load_program(self.snap, p)
                self.profiles.append(p)
        except BuildError as e:
            self.fail_inconclusive('build: ' + str(e))
        return self

    def prog(self, profile='dev'):
        if profile not in self.progs:
            self.progs[profile] = load_program(self.snap, profile)
            if profile not in self.profiles: self.profiles.append(profile)
        return self.progs[profile]

    # findings --------------------------------------------------------------------------------------
    def add_finding(self, f):
        for g in self.findings:
            if g.key() == f.key():
                g.count = getattr(g, 'count', 1) + 1
                return g
        f.count = 1
        self.findings.append(f)
        return f

    def sample(self, s):
        if len(self.samples) < 12:
            self.samples.append(s)

    def absorb(self, st):
        self.stats.merge(st)
        self.functions |= st.touched
        self.models |= st.models

    # native replay of pure functions -------------------------------------------------------------------
    def native_calls(self, requests, release=False):
        """requests: list of (fn, [bytes args]) -> list of ('ok'|'panic', bytes)"""
        exe = self.snap.build_replay_tests(release)
        rq = os.path.join(self.snap.dir, f'rq{len(requests)}_{int(time.time()*1000)%100000}.txt')
        with open(rq, 'w') as f:
            for fn, args in requests:
                f.write(fn + ''.join('\t' + bytes(a).hex() for a in args) + '\n')
        r = subprocess.run([exe, '--exact', 'state::verif_replay::replay', '--nocapture', '--test-threads', '1'],
                           env=dict(os.environ, SIRC_REPLAY_FILE=rq), capture_output=True, text=True, timeout=600)
        out = {}
        for line in r.stdout.splitlines():
            if line.startswith('R\t'):
                p = line.split('\t')
                out[int(p[1])] = (p[2], bytes.fromhex(p[3]) if len(p) > 3 else b'')
        if len(out) != len(requests):
            raise Inconclusive('native replay harness produced %d of %d answers: %s' % (len(out), len(requests), (r.stdout + r.stderr)[-600:]))
        self.native_replays += len(requests)
        return [out[i] for i in range(len(requests))]

    # verdict -------------------------------------------------------------------------------------------
    def fail_inconclusive(self, why):
        self.inconclusive.append(why)
        self.finish()

    def known_entries(self):
        try:
            d = json.load(open(KNOWN_FILE))
        except (OSError, ValueError):
            return []
        return [e for e in d.get('findings', []) if e.get('property') == self.prop]

    def match_known(self, f):
        for e in self.known_entries():
            if e.get('status') != 'known': continue
            role = e.get('role', {})
            if role.get('kind') and role['kind'] != f.kind: continue
            if role.get('site') and not re.search(role['site'], f.site or ''): continue
            if role.get('predicate') and role['predicate'] != f.role.get('predicate'): continue
            return e
        return None

    def finish(self):
        wall = time.time() - self.t0
        violations = []
        known_hits = []
        nonrepro = []
        for f in self.findings:
            if f.confirmed == 'skipped': continue
            if f.confirmed is False:
                nonrepro.append(f); continue
            if f.confirmed is None:
                nonrepro.append(f); continue
            e = self.match_known(f)
            if e is not None: known_hits.append((f, e))
            else: violations.append(f)
        os.makedirs(EVIDENCE_DIR, exist_ok=True)
        os.makedirs(os.path.join(OUT_DIR, 'replays'), exist_ok=True)
        seen_known = set()
        for f, e in known_hits:
            if e['id'] in seen_known: continue
            seen_known.add(e['id'])
            print(f"KNOWN-FINDING: property={self.prop} {e['id']}: {e.get('what', f.what)}")
        replay_paths = []
        for i, f in enumerate(violations):
            p = os.path.join(OUT_DIR, 'replays', f'{self.prop}-{i}.json')
            json.dump(f.to_dict(), open(p, 'w'), indent=1, default=str)
            replay_paths.append(p)
            print(f'VIOLATION property={self.prop} replay={p}')
            print(f'  {f.kind} at {f.site}: {f.what}\n  witness: {json.dumps(f.witness, default=str)[:600]}')
        for i, f in enumerate(nonrepro[:5]):
            try: json.dump(f.to_dict(), open(os.path.join(OUT_DIR, 'replays', f'{self.prop}-nonrepro-{i}.json'), 'w'), indent=1, default=str)
            except Exception: pass
        for f in nonrepro:
            print(f'NON-REPRODUCING property={self.prop} {f.kind} at {f.site}: {f.what} witness={json.dumps(f.witness, default=str)[:300]} native={f.native}')
        st = self.stats
        if st.gaps or st.bound:
            self.inconclusive.append('paths without verdict: %d encoder gaps, %d bound hits: %s' % (st.gaps, st.bound, json.dumps(st.gap_msgs)[:1500]))
        cov = dict(
            states=max(st.paths, 0), transitions=max(st.branches, 0),
            traces_validated_against_impl=self.native_replays,
            samples=self.samples or [{'note': 'no sample recorded'}],
            evaluations=st.paths, distinct_nontrivial=self.nontrivial,
            rule='one evaluation = one explored path of the real MIR (distinct by its decision vector); non-trivial = reaches at least one property obligation',
            obligations=st.obligations, discharged=st.discharged,
            functions_encoded=sorted(self.functions)[:400], env_models_used=sorted(self.models),
            bounds=self.bounds, profiles=self.profiles,
            solver='z3 %s (python API), QF_BV+Bool' % z3.get_version_string(), solver_calls=st.solver_calls,
            solver_time_s=round(st.solver_time, 2), mir_steps=st.steps,
            cross_solver_checked=self.cross_checked, encoder_validation_vectors=self.validation_vectors,
            gaps=st.gaps, bound_exceeded=st.bound, infeasible_paths=st.infeasible, panicking_paths=st.panics,
            known_findings_hit=sorted(seen_known), non_reproducing=len(nonrepro), inconclusive=self.inconclusive[:10],
            build_timings=self.snap.timings if self.snap else {}, tree_hash=self.snap.tree_hash if self.snap else None,
            notes=self.notes[:20], exhaustive=False,
        )
        cov.update(self.extra)
        ev = dict(property_id=self.prop, tier=self.tier, seed=self.seed, level=self.level, coverage=cov,
                  assumptions=self.assumptions, wall_s=round(wall, 2), violations=len(violations))
        if cov['states'] < 1: cov['states'] = 1
        if cov['transitions'] < 1: cov['transitions'] = 1
        json.dump(ev, open(os.path.join(EVIDENCE_DIR, self.prop + '.json'), 'w'), indent=1, default=str)
        summary = (f'{self.prop} {self.tier}: paths={st.paths} obligations={st.obligations} discharged={st.discharged} '
                   f'panics={st.panics} gaps={st.gaps} bound={st.bound} solver_calls={st.solver_calls} '
                   f'solver_time={st.solver_time:.1f}s native_replays={self.native_replays} wall={wall:.1f}s')
        print(summary)
        if violations:
            sys.exit(1)
        if nonrepro or self.inconclusive:
            for w in self.inconclusive: print('INCONCLUSIVE:', w[:1500])
            sys.exit(2)
        sys.exit(0)

def span_text(prog, span):
    """source text at a MIR span (robust to line shifts; used as the site of a finding)"""
    m = re.match(r'(.*?):(\d+):(\d+): (\d+):(\d+)', span or '')
    if not m: return span or ''
    lines = prog.src_lines(m.group(1))
    l1, c1, l2, c2 = int(m.group(2)), int(m.group(3)), int(m.group(4)), int(m.group(5))
    if l1 - 1 >= len(lines): return span
    fn = ''
    for k in range(l1 - 1, -1, -1):
        mm = re.search(r'\bfn\s+(\w+)', lines[k])
        if mm: fn = mm.group(1) + ': '; break
    if l1 == l2: return fn + lines[l1 - 1][c1 - 1:c2 - 1].strip()
    return fn + lines[l1 - 1][c1 - 1:].strip()

def model_bytes(md, syms):
    """concrete bytes of a list of (int | BitVec) under a model"""
    out = []
    for b in syms:
        if isinstance(b, int): out.append(b)
        else:
            v = md.eval(b, True)
            out.append(v.as_long())
    return bytes(out)

def model_val(md, t):
    if isinstance(t, (int, bool)): return t
    v = md.eval(t, True)
    if z3.is_bool(v): return z3.is_true(v)
    return v.as_long()
