"""Runtime values of the MIR symbolic interpreter."""
import z3

class Panic(Exception):
    """a Rust panic on the executed path: (message, site span)"""
    def __init__(self, msg, site=''):
        Exception.__init__(self, msg, site)
        self.msg, self.site = msg, site
    def __str__(self):
        return f'{self.msg} @ {self.site}'

class Infeasible(Exception):
    pass

class EncoderGap(Exception):
    """the path reached something the encoder has no model for: the path is inconclusive"""
    pass

class BoundExceeded(Exception):
    pass

class PathAbort(Exception):
    """harness-requested stop of the current path (e.g. assume(false))"""
    pass

def is_sym(x):
    return isinstance(x, z3.ExprRef)

class Cell:
    __slots__ = ('v',)
    def __init__(self, v=None):
        self.v = v
    def __repr__(self):
        return f'Cell({self.v!r})'

class Ref:
    """reference / raw pointer / Box-less pointer to a place: a cell plus a projection path inside its value"""
    __slots__ = ('cell', 'path')
    def __init__(self, cell, path=()):
        self.cell, self.path = cell, path
    def __repr__(self):
        return f'&{self.cell.v!r}{list(self.path) if self.path else ""}'

class BoxV:
    """Box<T>, Arc<T>, Rc<T>: owning pointer to a cell (Arc clones share the cell)"""
    __slots__ = ('cell', 'kind')
    def __init__(self, cell, kind='Box'):
        self.cell, self.kind = cell, kind
    def __repr__(self):
        return f'{self.kind}({self.cell.v!r})'

class Str:
    """&str / &[u8]: view [s,e) on a byte buffer (list of int | BitVec(8))"""
    __slots__ = ('buf', 's', 'e')
    def __init__(self, buf, s=0, e=None):
        self.buf, self.s, self.e = buf, s, (len(buf) if e is None else e)
    def bytes(self):
        return self.buf[self.s:self.e]
    def __len__(self):
        return self.e - self.s
    def concrete(self):
        for i in range(self.s, self.e):
            if not isinstance(self.buf[i], int):
                return False
        return True
    def py(self):
        b = self.buf[self.s:self.e]
        for x in b:
            if not isinstance(x, int):
                return None
        return bytes(b).decode('utf-8', 'surrogateescape')
    def __repr__(self):
        p = self.py()
        return repr(p) if p is not None else 'Str<' + ''.join(chr(x) if isinstance(x, int) and 32 <= x < 127 else '?' for x in self.bytes()) + '>'

def mkstr(s):
    if isinstance(s, str):
        s = s.encode('utf-8', 'surrogateescape')
    return Str(list(s))

class StringV:
    """String: owned byte buffer"""
    __slots__ = ('data',)
    def __init__(self, data=None):
        self.data = list(data) if data is not None else []
    def view(self):
        return Str(self.data, 0, len(self.data))
    def py(self):
        return self.view().py()
    def __repr__(self):
        return 'String(' + repr(self.view()) + ')'

def mkstring(s):
    if isinstance(s, str):
        s = s.encode('utf-8', 'surrogateescape')
    return StringV(list(s))

class Adt:
    __slots__ = ('name', 'variant', 'fields')
    def __init__(self, name, variant, fields):
        self.name, self.variant, self.fields = name, variant, fields
    def __repr__(self):
        return f'{self.name}#{self.variant}{self.fields}'

class Tup(list):
    __slots__ = ()

class Closure:
    __slots__ = ('ident', 'fields', 'creator')
    def __init__(self, ident, fields):
        self.ident, self.fields = ident, fields
        self.creator = None
    def __repr__(self):
        return f'Closure({self.ident})'

class Coroutine:
    __slots__ = ('body', 'up', 'state', 'saved', 'tag')
    def __init__(self, body, upvars):
        self.body, self.up, self.state, self.saved = body, upvars, 0, {}
        self.tag = None
    def __repr__(self):
        return f'Coroutine({self.body.split("::")[-2] if "::" in self.body else self.body}, state={self.state})'

class FnItem:
    __slots__ = ('path',)
    def __init__(self, path):
        self.path = path
    def __repr__(self):
        return f'fn {self.path}'

class Opaque:
    """a value the models never look into (clock readings, boxed errors, io handles ...)"""
    __slots__ = ('n', 'payload')
    def __init__(self, n, payload=None):
        self.n, self.payload = n, payload
    def __repr__(self):
        return f'<{self.n}>'

class VecV:
    """Vec<T> / VecDeque<T>: list of cells"""
    __slots__ = ('items',)
    def __init__(self, items=None):
        self.items = [Cell(x) for x in (items or [])]
    def __repr__(self):
        return 'Vec' + repr([c.v for c in self.items])

class Slice:
    """&[T] / &mut [T]: view on a list of cells"""
    __slots__ = ('items', 's', 'e')
    def __init__(self, items, s=0, e=None):
        self.items, self.s, self.e = items, s, (len(items) if e is None else e)
    def cells(self):
        return self.items[self.s:self.e]
    def __len__(self):
        return self.e - self.s
    def __repr__(self):
        return 'Slice' + repr([c.v for c in self.cells()])

class HMap:
    """HashMap<K,V> / HashSet<K>: slot list [key(Str-like value), live (bool | z3 Bool), Cell(value)].
    Keys are concrete python strings when the key type is String/&str, else arbitrary hashable python values."""
    __slots__ = ('slots', 'is_set')
    def __init__(self, is_set=False):
        self.slots = []
        self.is_set = is_set
    def find(self, k):
        for s in self.slots:
            if s[0] == k:
                return s
        return None
    def __repr__(self):
        return ('HSet' if self.is_set else 'HMap') + repr([(s[0], s[1]) for s in self.slots])

class Iter:
    """lazy iterator (python generator of values) with an optional size hint"""
    __slots__ = ('gen', 'tag', 'peek', 'sym_slots')
    def __init__(self, gen, tag='', sym_slots=None):
        self.gen, self.tag = gen, tag
        self.peek = None
        self.sym_slots = sym_slots      # [(live, thunk)] for map-backed iterators not yet advanced (enables fork-free any/all)
    def __repr__(self):
        return f'Iter<{self.tag}>'

NONE = lambda: Adt('Option', 0, [])
def some(v): return Adt('Option', 1, [v])
def ok(v): return Adt('Result', 0, [v])
def err(v): return Adt('Result', 1, [v])
UNIT = Tup

def deep_copy(v):
    """copy for `copy` operands of Copy types and for Clone::clone"""
    if isinstance(v, Tup):
        return Tup(deep_copy(x) for x in v)
    if isinstance(v, Adt):
        return Adt(v.name, v.variant, [deep_copy(x) for x in v.fields])
    if isinstance(v, StringV):
        return StringV(v.data)
    if isinstance(v, VecV):
        return VecV([deep_copy(c.v) for c in v.items])
    if isinstance(v, HMap):
        h = HMap(v.is_set)
        h.slots = [[s[0], s[1], Cell(deep_copy(s[2].v))] for s in v.slots]
        return h
    if isinstance(v, BoxV):
        if v.kind == 'Box':
            return BoxV(Cell(deep_copy(v.cell.v)), 'Box')
        return v          # Arc/Rc clone shares
    if isinstance(v, Closure):
        c = Closure(v.ident, [deep_copy(x) for x in v.fields]); c.creator = v.creator
        return c
    return v              # ints, bools, z3 terms, Str, Ref, Opaque, FnItem, model objects

def shallow_copy(v):
    """copy for `copy` operands: only Copy types are ever copied, they never own heap containers"""
    if isinstance(v, Tup):
        return Tup(shallow_copy(x) for x in v)
    if isinstance(v, Adt):
        return Adt(v.name, v.variant, [shallow_copy(x) for x in v.fields])
    return v
