"""core::fmt: Arguments templates, format!, write!, Display/Debug of primitives; crate types run their own fmt MIR."""
import z3
from . import model, pattern
from ..values import *
from ..machine import type_head
from .core_m import unit
from .str_m import as_str, encode_char

class DecSeg:
    """decimal rendering of a symbolic integer inside an output string (its length is not known)"""
    __slots__ = ('term', 'signed')
    def __init__(self, term, signed=False):
        self.term, self.signed = term, signed
    def __eq__(self, o):
        if o is self: return True
        if isinstance(o, DecSeg): return z3.eq(self.term, o.term)
        raise EncoderGap('comparison with the decimal rendering of a symbolic integer')
    def __hash__(self): return id(self)
    def __repr__(self): return '{dec:%s}' % (z3.simplify(self.term),)

def decode_template(t):
    out = []
    i = 0
    nxt = 0
    n = len(t)
    while i < n:
        b = t[i]
        if b == 0:
            break
        if b < 0x80:
            out.append(('lit', t[i + 1:i + 1 + b])); i += 1 + b
        elif b == 0x80:
            ln = t[i + 1] | (t[i + 2] << 8)
            out.append(('lit', t[i + 3:i + 3 + ln])); i += 3 + ln
        else:
            i += 1
            flags = width = prec = None
            if b & 1: flags = t[i] | (t[i + 1] << 8) | (t[i + 2] << 16) | (t[i + 3] << 24); i += 4
            if b & 2: width = t[i] | (t[i + 1] << 8); i += 2
            if b & 4: prec = t[i] | (t[i + 1] << 8); i += 2
            idx = nxt
            if b & 8: idx = t[i] | (t[i + 1] << 8); i += 2
            if b & 0x30: raise EncoderGap('dynamic width/precision in format string')
            nxt = idx + 1
            out.append(('arg', idx, flags, width, prec))
    return out

def mk_formatter(out, opts=None):
    return Adt('Formatter', 0, [out, opts])

def fmt_out(M, f):
    v = M.rdd(f)
    if isinstance(v, Adt) and v.name == 'Formatter': return v.fields[0]
    if isinstance(v, StringV): return v.data
    raise EncoderGap('formatter sink ' + type(v).__name__)

def render_arguments(M, args, out):
    tmpl, arr, lit = args.fields
    if lit is not None:
        out.extend(as_str(M, lit).bytes()); return
    arrv = M.rdd(arr) if arr is not None else []
    cells = arrv if isinstance(arrv, (Tup, list)) else [c.v for c in (arrv.items if isinstance(arrv, VecV) else arrv.cells())]
    for part in decode_template(as_str(M, tmpl).bytes()):
        if part[0] == 'lit':
            out.extend(part[1])
        else:
            _, idx, flags, width, prec = part
            a = cells[idx]
            render_argument(M, a, out, flags, width, prec)

def render_argument(M, a, out, flags=None, width=None, prec=None):
    kind = a.fields[1]
    tmp = [] if (width or prec is not None) else out
    if flags not in (None, 0, 0x20):   # 0x20 = default fill ' ' encoded in flags on some versions
        if flags & ~0x1fffff not in (0,):
            pass
    if kind == 'display': render_display(M, a.fields[0], tmp, a.fields[2] if len(a.fields) > 2 else None)
    elif kind == 'debug': render_debug(M, a.fields[0], tmp)
    elif kind in ('lower_hex', 'upper_hex'):
        v = M.rdd(a.fields[0])
        if not isinstance(v, int): raise EncoderGap('hex of symbolic value')
        tmp.extend((('%x' if kind == 'lower_hex' else '%X') % v).encode())
    else:
        raise EncoderGap('format trait ' + kind)
    if tmp is not out:
        if prec is not None: tmp = tmp[:prec]
        if any(isinstance(x, DecSeg) for x in tmp):
            out.extend(tmp); return          # padded symbolic number: still an opaque run of digits
        pad = (width or 0) - len(tmp)
        zero = bool(flags and (flags >> 24) & 1) if flags else False
        out.extend(tmp + [32] * max(pad, 0)) if kind != 'display' or not _is_num(M, a.fields[0]) else out.extend([48 if zero else 32] * max(pad, 0) + tmp)

def _is_num(M, r):
    v = M.rdd(r)
    return isinstance(v, int) and not isinstance(v, bool)

PARSE_INT_MSG = {'Empty': 'cannot parse integer from empty string', 'InvalidDigit': 'invalid digit found in string',
                 'PosOverflow': 'number too large to fit in target type', 'NegOverflow': 'number too small to fit in target type',
                 'Zero': 'number would be zero for non-zero type'}

def render_display(M, r, out, ty_hint=None):
    v = r
    while isinstance(v, (Ref, BoxV)):
        r = v if isinstance(v, Ref) else Ref(v.cell)      # innermost reference: the one that points at the value itself
        v = M.rd(v)
    if isinstance(v, Str): out.extend(v.bytes()); return
    if isinstance(v, StringV): out.extend(v.data); return
    if isinstance(v, bool): out.extend(b'true' if v else b'false'); return
    if isinstance(v, int):
        if ty_hint == 'char': out.extend(chr(v).encode('utf-8', 'surrogatepass'))
        else: out.extend(str(v).encode())
        return
    if is_sym(v):
        if z3.is_bool(v):
            out.extend(b'true' if M.branch(v) else b'false'); return
        if ty_hint == 'char':
            out.extend(encode_char(M, v)); return
        sv = z3.simplify(v)
        if z3.is_bv_value(sv): out.extend(str(sv.as_long()).encode()); return
        out.append(DecSeg(v)); return
    if isinstance(v, Adt):
        if v.name == 'Arguments': render_arguments(M, v, out); return
        if v.name == 'ParseIntError':
            out.extend(PARSE_INT_MSG[v.fields[0].n].encode()); return
        if v.name == 'Cow': render_display(M, v.fields[0], out); return
        if v.name in ('DateTime', 'NaiveDateTime', 'SystemTime'):
            out.extend(b'<datetime>'); return
        if v.name == 'LinesCodecError':
            out.extend(b'max line length exceeded' if v.variant == 0 else b'<io error>'); return
        if v.name in ('SendError', 'TryRecvError', 'ParseBoolError', 'ValidationError', 'ValidationErrors'):
            out.extend(('<' + v.name + '>').encode()); return
        r2 = M.prog.impl_index.get((v.name, 'Display', 'fmt'))
        if r2:
            f = mk_formatter(out)
            res = M.run_fn(r2[0], [r if isinstance(r, Ref) else Ref(Cell(v)), Ref(Cell(f))])
            return
        raise EncoderGap('Display of ' + v.name)
    if isinstance(v, Opaque):
        if isinstance(v.payload, (bytes, str)):
            out.extend(v.payload.encode() if isinstance(v.payload, str) else v.payload); return
        if v.n in ('boxed error', 'io error', 'SendError', 'LinesCodecError', 'RecvError', 'JoinError', 'TryFromIntError', 'ParseBoolError',
                   'FromUtf8Error', 'Utf8Error', 'password hash error'):
            out.extend(('<' + v.n + '>').encode()); return
        if isinstance(v.payload, DecSeg) or v.payload is not None and hasattr(v.payload, 'render'):
            v.payload.render(M, out); return
        raise EncoderGap('Display of opaque ' + v.n)
    if hasattr(v, 'render'):
        v.render(M, out); return
    raise EncoderGap('Display of ' + type(v).__name__)

def render_any(M, v, out):
    vv = v
    while isinstance(vv, (Ref, BoxV)):
        vv = M.rd(vv)
    if isinstance(vv, Adt) and vv.name == 'Arguments':
        render_arguments(M, vv, out)
    else:
        render_display(M, v, out)

def render_debug(M, r, out):
    v = r
    while isinstance(v, (Ref, BoxV)):
        r = v if isinstance(v, Ref) else Ref(v.cell)
        v = M.rd(v)
    if isinstance(v, (Str, StringV)):
        s = as_str(M, v)
        out.append(34)
        for b in s.bytes():
            if isinstance(b, int) and b in (34, 92): out.extend([92, b])
            elif isinstance(b, int) and b == 10: out.extend(b'\\n')
            elif isinstance(b, int) and b == 13: out.extend(b'\\r')
            elif isinstance(b, int) and b == 9: out.extend(b'\\t')
            else: out.append(b)
        out.append(34); return
    if isinstance(v, (bool, int)) or is_sym(v):
        render_display(M, v, out); return
    if isinstance(v, (VecV, Slice, Tup)) and not (isinstance(v, Tup) and len(v) == 0):
        cells = [c.v for c in (v.items if isinstance(v, VecV) else v.cells())] if not isinstance(v, Tup) else list(v)
        out.append(91 if not isinstance(v, Tup) else 40)
        for i, x in enumerate(cells):
            if i: out.extend(b', ')
            render_debug(M, x, out)
        out.append(93 if not isinstance(v, Tup) else 41); return
    if isinstance(v, Tup): out.extend(b'()'); return
    if isinstance(v, Adt):
        if v.name == 'Option':
            from .core_m import opt_is_some
            if opt_is_some(M, v):
                out.extend(b'Some('); render_debug(M, v.fields[0], out); out.append(41)
            else: out.extend(b'None')
            return
        if v.name == 'Result':
            out.extend(b'Ok(' if v.variant == 0 else b'Err('); render_debug(M, v.fields[0], out); out.append(41); return
        r2 = M.prog.impl_index.get((v.name, 'Debug', 'fmt'))
        if r2:
            f = mk_formatter(out)
            M.run_fn(r2[0], [r if isinstance(r, Ref) else Ref(Cell(v)), Ref(Cell(f))]); return
        out.extend(('<' + v.name + '>').encode()); return
    if isinstance(v, Opaque):
        out.extend(('<' + v.n + '>').encode()); return
    if isinstance(v, HMap):
        out.extend(b'{..}'); return
    raise EncoderGap('Debug of ' + type(v).__name__)

# ------------------------------------------------------------------------------------------ models
@pattern(r'std::fmt::rt::Argument::new_(display|debug|lower_hex|upper_hex|octal|binary|lower_exp|upper_exp|pointer)')
def argument_new(M, ctx, r):
    hint = 'char' if (ctx.targs or '').strip().lstrip('&') == 'char' else None
    return Adt('Argument', 0, [r, ctx.method[4:], hint])

@model('std::fmt::rt::Argument::from_usize')
def argument_from_usize(M, ctx, r):
    return Adt('Argument', 0, [r, 'display'])

@model('std::fmt::Arguments::new')
def arguments_new(M, ctx, tmpl, args):
    return Adt('Arguments', 0, [tmpl, args, None])

@model('std::fmt::Arguments::from_str', 'std::fmt::Arguments::from_str_nonconst', 'std::fmt::Arguments::new_const')
def arguments_from_str(M, ctx, s):
    v = M.rdd(s) if isinstance(s, (Ref, BoxV)) else s
    if isinstance(v, (Tup, Slice)):    # new_const(&[&str; 1])
        parts = list(v) if isinstance(v, Tup) else [c.v for c in v.cells()]
        out = []
        for p in parts: out.extend(as_str(M, p).bytes())
        v = Str(out)
    return Adt('Arguments', 0, [None, None, v])

@model('std::fmt::Arguments::as_str', 'std::fmt::Arguments::as_statically_known_str')
def arguments_as_str(M, ctx, a):
    v = M.rdd(a)
    return some(v.fields[2]) if v.fields[2] is not None else NONE()

@model('std::fmt::format', 'std::fmt::format::format_inner')
def format_m(M, ctx, args):
    out = []
    render_arguments(M, args, out)
    return StringV(out)

@model('std::fmt::Formatter::write_fmt', 'std::fmt::Write::write_fmt', 'std::fmt::write')
def write_fmt_m(M, ctx, f, args):
    render_arguments(M, args, fmt_out(M, f))
    return ok(Tup())

@model('std::fmt::Formatter::write_str', 'std::fmt::Formatter::pad')
def formatter_write_str(M, ctx, f, s):
    fmt_out(M, f).extend(as_str(M, s).bytes())
    return ok(Tup())

@model('std::fmt::Formatter::write_char')
def formatter_write_char(M, ctx, f, c):
    fmt_out(M, f).extend(encode_char(M, c))
    return ok(Tup())

@model('std::fmt::Display::fmt')
def display_fmt(M, ctx, r, f):
    hint = 'char' if type_head(ctx.self_ty or '') == 'char' else None
    render_display(M, r, fmt_out(M, f), hint)
    return ok(Tup())

@model('std::fmt::Debug::fmt')
def debug_fmt(M, ctx, r, f):
    render_debug(M, r, fmt_out(M, f))
    return ok(Tup())

@pattern(r'std::fmt::Formatter::debug_(struct|tuple)_field(\d)_finish')
def debug_fields_finish(M, ctx, f, name, *rest):
    out = fmt_out(M, f)
    out.extend(as_str(M, name).bytes())
    is_struct = 'struct' in ctx.method
    out.extend(b' { ' if is_struct else b'(')
    if is_struct:
        for i in range(0, len(rest), 2):
            if i: out.extend(b', ')
            out.extend(as_str(M, rest[i]).bytes()); out.extend(b': ')
            render_debug(M, rest[i + 1], out)
        out.extend(b' }')
    else:
        for i, x in enumerate(rest):
            if i: out.extend(b', ')
            render_debug(M, x, out)
        out.append(41)
    return ok(Tup())

@model('std::fmt::Formatter::debug_struct_fields_finish')
def debug_struct_fields_finish(M, ctx, f, name, names, values):
    out = fmt_out(M, f)
    out.extend(as_str(M, name).bytes()); out.extend(b' { ')
    ns = M.rdd(names); vs = M.rdd(values)
    nl = list(ns) if isinstance(ns, Tup) else [c.v for c in ns.cells()]
    vl = list(vs) if isinstance(vs, Tup) else [c.v for c in vs.cells()]
    for i, (n, v) in enumerate(zip(nl, vl)):
        if i: out.extend(b', ')
        out.extend(as_str(M, n).bytes()); out.extend(b': ')
        render_debug(M, v, out)
    out.extend(b' }')
    return ok(Tup())

def text_of(buf):
    """human readable rendering of an output buffer"""
    out = []
    for x in buf:
        if isinstance(x, int): out.append(chr(x) if 32 <= x < 127 else '\\x%02x' % x)
        elif isinstance(x, DecSeg): out.append(repr(x))
        else: out.append('{%s}' % z3.simplify(x))
    return ''.join(out)
