"""tokio / futures models: RwLock, mpsc, oneshot, select! support, time, spawn, Framed stream.

Futures are either interpreted coroutines (crate async fns) or small python objects with poll(M, cx).
The scheduler-dependent behaviour (who holds a lock, which select! branch is ready, virtual time) lives in M.env.
"""
import z3
from . import model, pattern, override
from ..values import *
from ..machine import type_head, DROP_HOOKS
from .core_m import unit, sub_ref, CLONE_HOOKS

def ready(v): return Adt('Poll', 0, [v])
def pending(): return Adt('Poll', 1, [])

class Deadlock(Panic):
    pass

# ------------------------------------------------------------------------------------------ generic future protocol
class ModelFuture:
    def poll(self, M, cx):
        raise NotImplementedError
    def __repr__(self):
        return f'<{type(self).__name__}>'

class ReadyFuture(ModelFuture):
    def __init__(self, v): self.v = v
    def poll(self, M, cx): return ready(self.v)

class ThunkFuture(ModelFuture):
    """future whose value is computed at first poll"""
    def __init__(self, f): self.f = f
    def poll(self, M, cx): return ready(self.f())

def poll_future(M, pin, cx):
    p = pin
    if isinstance(p, Adt) and p.name == 'Pin': p = p.fields[0]
    fut = M.rd(p) if isinstance(p, (Ref, BoxV)) else p
    while isinstance(fut, (Ref, BoxV)) or (isinstance(fut, Adt) and fut.name == 'Pin'):
        p = fut.fields[0] if isinstance(fut, Adt) else fut
        fut = M.rd(p) if isinstance(p, (Ref, BoxV)) else p
    if isinstance(fut, Coroutine):
        hook = M.env.get('poll_hook')
        if hook: hook(M, fut)
        return M.run_fn(fut.body, [Adt('Pin', 0, [p if isinstance(p, Ref) else Ref(Cell(fut))]), cx])
    if isinstance(fut, ModelFuture):
        return fut.poll(M, cx)
    if isinstance(fut, Adt) and fut.name in ('Ready',):
        v = fut.fields[0]
        return ready(v.fields[0])
    raise EncoderGap(f'poll of {type(fut).__name__} {fut!r}')

@model('std::future::Future::poll', 'futures::Future::poll', 'std::future::future::Future::poll')
def future_poll(M, ctx, pin, cx):
    return poll_future(M, pin, cx)

@model('std::future::IntoFuture::into_future')
def into_future(M, ctx, f):
    return f

@model('std::future::ready', 'futures::future::ready')
def future_ready(M, ctx, v):
    return ReadyFuture(v)

class PollFn(ModelFuture):
    def __init__(self, clo): self.clo = clo
    def poll(self, M, cx):
        return M.call_value(self.clo, [cx])

@model('std::future::poll_fn', 'futures::future::poll_fn', 'tokio::future::poll_fn')
def poll_fn_m(M, ctx, clo):
    return PollFn(clo)

@model('tokio::macros::support::thread_rng_n')
def thread_rng_n(M, ctx, n):
    # select! start branch: any value is possible.  The harness may pin it (env['select_start']); default explores all.
    fixed = M.env.get('select_start')
    if fixed is not None: return fixed % n
    return M.choose(n, 'select_start')

@model('tokio::macros::support::poll_budget_available')
def poll_budget_available(M, ctx, cx):
    return ready(Tup())

class FuseFuture(ModelFuture):
    def __init__(self, inner): self.inner, self.done = inner, False
    def poll(self, M, cx):
        if self.done: return pending()
        r = poll_future(M, Ref(Cell(self.inner)), cx) if not isinstance(self.inner, ModelFuture) else self.inner.poll(M, cx)
        if r.variant == 0: self.done = True
        return r
    def on_drop(self, M):
        if hasattr(self.inner, 'on_drop'): self.inner.on_drop(M)

@model('futures::FutureExt::fuse', 'futures::future::FutureExt::fuse')
def fuse_m(M, ctx, f):
    return FuseFuture(f)

@model('futures::future::FusedFuture::is_terminated')
def fuse_is_terminated(M, ctx, r):
    f = M.rdd(r)
    return f.done if isinstance(f, FuseFuture) else False

# ------------------------------------------------------------------------------------------ RwLock
class LockState:
    def __init__(self): self.readers, self.writer = 0, False

def lock_state(M, lock):
    if len(lock.fields) < 2: lock.fields.append(LockState())
    if not isinstance(lock.fields[1], LockState): lock.fields[1] = LockState()
    ls = M.env.setdefault('lock_states', [])
    if not any(x is lock.fields[1] for x in ls): ls.append(lock.fields[1])
    return lock.fields[1]

def release_all_locks(M):
    """a task that panicked unwinds: every guard it held is dropped (single-task harnesses only)"""
    for st in M.env.get('lock_states', []):
        st.readers, st.writer = 0, False

class LockFuture(ModelFuture):
    def __init__(self, lockref, write): self.lockref, self.write = lockref, write
    def poll(self, M, cx):
        lock = M.rdd(self.lockref)
        st = lock_state(M, lock)
        sched = M.env.get('sched')
        free = (not st.writer and st.readers == 0) if self.write else (not st.writer)
        if not free:
            if sched is None:
                raise Deadlock('task waits for a tokio RwLock it already holds (would hang forever)')
            return pending()
        if sched is not None and not sched.may_acquire(M, self):
            return pending()
        if self.write: st.writer = True
        else: st.readers += 1
        inner = sub_ref(M, self.lockref, 0)
        return ready(Adt('RwLockWriteGuard' if self.write else 'RwLockReadGuard', 0, [inner, st]))

@model('tokio::sync::RwLock::new', 'tokio::sync::Mutex::new', 'std::sync::RwLock::new', 'std::sync::Mutex::new')
def rwlock_new(M, ctx, v):
    return Adt('RwLock', 0, [v, LockState()])

@model('tokio::sync::RwLock::write', 'tokio::sync::Mutex::lock')
def rwlock_write(M, ctx, r):
    return LockFuture(r, True)

@model('tokio::sync::RwLock::read')
def rwlock_read(M, ctx, r):
    return LockFuture(r, False)

def _guard_drop(M, g):
    st = g.fields[1]
    if isinstance(st, LockState):
        if g.name == 'RwLockWriteGuard': st.writer = False
        else: st.readers = max(0, st.readers - 1)
    g.fields = [g.fields[0], None]

DROP_HOOKS['RwLockWriteGuard'] = _guard_drop
DROP_HOOKS['RwLockReadGuard'] = _guard_drop

# ------------------------------------------------------------------------------------------ mpsc
class Chan:
    """unbounded mpsc channel"""
    def __init__(self, name=''):
        self.q = []; self.rx_alive = True; self.senders = 1; self.name = name
        self.log = []          # everything ever sent (harness observation)
    def __repr__(self): return f'<chan {self.name} {len(self.q)}>'

def mk_sender(ch): return Adt('UnboundedSender', 0, [ch])
def mk_receiver(ch): return Adt('UnboundedReceiver', 0, [ch])

@model('tokio::sync::mpsc::unbounded_channel', 'tokio::sync::mpsc::unbounded::unbounded_channel')
def unbounded_channel(M, ctx):
    ch = Chan()
    return Tup([mk_sender(ch), mk_receiver(ch)])

@model('tokio::sync::mpsc::UnboundedSender::send', 'tokio::sync::mpsc::unbounded::UnboundedSender::send')
def sender_send(M, ctx, r, msg):
    ch = M.rdd(r).fields[0]
    if not ch.rx_alive:
        return err(Adt('SendError', 0, [msg]))
    ch.q.append(msg); ch.log.append(msg)
    M.env['activity'] = M.env.get('activity', 0) + 1
    return ok(Tup())

@model('tokio::sync::mpsc::UnboundedSender::is_closed')
def sender_is_closed(M, ctx, r):
    return not M.rdd(r).fields[0].rx_alive

def _sender_drop(M, s):
    ch = s.fields[0]
    if isinstance(ch, Chan): ch.senders -= 1
def _receiver_drop(M, s):
    ch = s.fields[0]
    if isinstance(ch, Chan): ch.rx_alive = False
DROP_HOOKS['UnboundedSender'] = _sender_drop
DROP_HOOKS['UnboundedReceiver'] = _receiver_drop

def _sender_clone(M, s):
    s.fields[0].senders += 1
    return Adt('UnboundedSender', 0, [s.fields[0]])

CLONE_HOOKS['UnboundedSender'] = _sender_clone

class RecvFuture(ModelFuture):
    def __init__(self, ch): self.ch = ch
    def poll(self, M, cx):
        ch = self.ch
        if ch.q:
            return ready(some(ch.q.pop(0)))
        if ch.senders <= 0:
            return ready(NONE())
        return pending()

@model('tokio::sync::mpsc::UnboundedReceiver::recv', 'tokio::sync::mpsc::unbounded::UnboundedReceiver::recv')
def receiver_recv(M, ctx, r):
    return RecvFuture(M.rdd(r).fields[0])

@model('tokio::sync::mpsc::UnboundedReceiver::try_recv')
def receiver_try_recv(M, ctx, r):
    ch = M.rdd(r).fields[0]
    if ch.q: return ok(ch.q.pop(0))
    return err(Adt('TryRecvError', 1 if ch.senders <= 0 else 0, []))

@model('tokio::sync::mpsc::UnboundedReceiver::close')
def receiver_close(M, ctx, r):
    M.rdd(r).fields[0].rx_alive = False
    return unit()

# ------------------------------------------------------------------------------------------ oneshot
class OneShot:
    def __init__(self, name=''):
        self.value = None; self.sent = False; self.tx_dropped = False; self.rx_alive = True; self.name = name
        self.taken = False
    def __repr__(self): return f'<oneshot {self.name} sent={self.sent}>'

class OneshotReceiver(ModelFuture):
    def __init__(self, st): self.st = st
    def poll(self, M, cx):
        st = self.st
        if st.sent and not st.taken:
            st.taken = True
            return ready(ok(st.value))
        if st.tx_dropped or st.taken:
            return ready(err(Opaque('RecvError')))
        return pending()
    def on_drop(self, M):
        self.st.rx_alive = False

def mk_oneshot_sender(st): return Adt('OneshotSender', 0, [st])

@model('tokio::sync::oneshot::channel')
def oneshot_channel(M, ctx):
    st = OneShot()
    return Tup([mk_oneshot_sender(st), OneshotReceiver(st)])

@model('tokio::sync::oneshot::Sender::send')
def oneshot_send(M, ctx, s, v):
    st = s.fields[0]
    s.fields[0] = None        # consumed: its drop must not close the channel
    if not st.rx_alive:
        return err(v)
    st.value = v; st.sent = True
    M.env['activity'] = M.env.get('activity', 0) + 1
    return ok(Tup())

@model('tokio::sync::oneshot::Sender::is_closed')
def oneshot_is_closed(M, ctx, r):
    return not M.rdd(r).fields[0].rx_alive

def _oneshot_sender_drop(M, s):
    st = s.fields[0]
    if isinstance(st, OneShot) and not st.sent:
        st.tx_dropped = True
        M.env['activity'] = M.env.get('activity', 0) + 1
DROP_HOOKS['OneshotSender'] = _oneshot_sender_drop

@model('tokio::sync::oneshot::Receiver::close')
def oneshot_rx_close(M, ctx, r):
    M.rdd(r).st.rx_alive = False
    return unit()

@model('tokio::sync::oneshot::Receiver::try_recv')
def oneshot_try_recv(M, ctx, r):
    rx = M.rdd(r); st = rx.st
    if st.sent and not st.taken:
        st.taken = True; return ok(st.value)
    return err(Adt('TryRecvError', 1 if st.tx_dropped else 0, []))

# ------------------------------------------------------------------------------------------ tasks, time
class JoinHandle(ModelFuture):
    def __init__(self, task): self.task = task
    def poll(self, M, cx):
        t = self.task
        if t.get('done'): return ready(ok(t['result']))
        return pending()

@model('tokio::spawn', 'tokio::task::spawn', 'tokio::task::spawn::spawn')
def tokio_spawn(M, ctx, fut):
    task = {'fut': fut, 'done': False, 'result': None, 'name': repr(fut)}
    M.env.setdefault('tasks', []).append(task)
    hook = M.env.get('on_spawn')
    if hook: hook(M, task)
    return JoinHandle(task)

@model('tokio::task::spawn_blocking', 'tokio::task::blocking::spawn_blocking')
def spawn_blocking(M, ctx, clo):
    # the closure runs to completion on a blocking thread; the await yields once when a scheduler is active
    state = {'polled': False}
    def thunk():
        return ok(M.call_value(clo, []))
    class BlockingJoin(ModelFuture):
        def poll(self2, M2, cx):
            sched = M2.env.get('sched')
            if sched is not None and not state['polled']:
                state['polled'] = True
                if sched.yield_point(M2, 'spawn_blocking'): return pending()
            return ready(thunk())
    return BlockingJoin()

class Clock:
    """virtual time in seconds (symbolic 64-bit allowed)"""
    def __init__(self): self.now = 0

def clock(M):
    c = M.env.get('clock')
    if c is None: c = M.env['clock'] = Clock()
    return c

class SleepFuture(ModelFuture):
    def __init__(self, deadline): self.deadline = deadline
    def poll(self, M, cx):
        c = clock(M)
        due = M.binop_t('Le', self.deadline, c.now, 'u64')
        if M.branch(due): return ready(Tup())
        timers = M.env.setdefault('timers', [])
        if self not in timers: timers.append(self)
        return pending()

def dur_secs(M, d):
    v = M.rdd(d) if isinstance(d, (Ref, BoxV)) else d
    if isinstance(v, Adt) and v.name == 'Duration': return v.fields[0]
    raise EncoderGap('Duration value ' + repr(v))

@model('std::time::Duration::from_secs')
def duration_from_secs(M, ctx, s): return Adt('Duration', 0, [s, 0])
@model('std::time::Duration::from_millis')
def duration_from_millis(M, ctx, ms):
    if isinstance(ms, int): return Adt('Duration', 0, [ms // 1000, (ms % 1000) * 1000000])
    raise EncoderGap('symbolic Duration::from_millis')
@model('std::time::Duration::new')
def duration_new(M, ctx, s, n): return Adt('Duration', 0, [s, n])
@model('std::time::Duration::as_secs')
def duration_as_secs(M, ctx, d): return dur_secs(M, d)
@model('std::time::Duration::as_millis')
def duration_as_millis(M, ctx, d):
    s = dur_secs(M, d)
    if isinstance(s, int): return s * 1000
    return z3.ZeroExt(64, s) * 1000

@model('tokio::time::sleep', 'tokio::time::sleep::sleep')
def tokio_sleep(M, ctx, d):
    return SleepFuture(M.binop_t('Add', clock(M).now, dur_secs(M, d), 'u64'))

class Interval:
    def __init__(self, start, period): self.next, self.period = start, period

class TickFuture(ModelFuture):
    def __init__(self, iv): self.iv = iv
    def poll(self, M, cx):
        c = clock(M)
        if M.branch(M.binop_t('Le', self.iv.next, c.now, 'u64')):
            self.iv.next = M.binop_t('Add', self.iv.next, self.iv.period, 'u64')
            return ready(Opaque('Instant'))
        timers = M.env.setdefault('timers', [])
        sf = SleepFuture(self.iv.next)
        if not any(isinstance(t, SleepFuture) and t.deadline is self.iv.next for t in timers): timers.append(sf)
        return pending()

@model('tokio::time::interval', 'tokio::time::interval::interval')
def tokio_interval(M, ctx, d):
    p = dur_secs(M, d)
    if isinstance(p, int) and p == 0: raise Panic('`period` must be non-zero.')
    if is_sym(p) and M.branch(p == 0): raise Panic('`period` must be non-zero.')
    return Adt('Interval', 0, [Interval(clock(M).now, p)])

@model('tokio::time::Interval::tick', 'tokio::time::interval::Interval::tick')
def interval_tick(M, ctx, r):
    return TickFuture(M.rdd(r).fields[0])

class TimeoutFuture(ModelFuture):
    def __init__(self, deadline, inner): self.deadline, self.inner = deadline, inner
    def poll(self, M, cx):
        r = poll_future(M, Ref(Cell(self.inner)), cx) if not isinstance(self.inner, ModelFuture) else self.inner.poll(M, cx)
        if r.variant == 0: return ready(ok(r.fields[0]))
        c = clock(M)
        if M.branch(M.binop_t('Le', self.deadline, c.now, 'u64')):
            return ready(err(Opaque('Elapsed')))
        timers = M.env.setdefault('timers', [])
        if not any(getattr(t, 'deadline', None) is self.deadline for t in timers): timers.append(SleepFuture(self.deadline))
        return pending()
    def on_drop(self, M):
        if hasattr(self.inner, 'on_drop'): self.inner.on_drop(M)

@model('tokio::time::timeout', 'tokio::time::timeout::timeout')
def tokio_timeout(M, ctx, d, fut):
    return TimeoutFuture(M.binop_t('Add', clock(M).now, dur_secs(M, d), 'u64'), fut)

# wall clock ----------------------------------------------------------------------------------------------
def wall_now(M):
    """seconds since the epoch: arbitrary but non-decreasing along a path"""
    prev = M.env.get('wall_prev')
    fixed = M.env.get('wall_fixed')
    if fixed is not None: return fixed
    rp = M.env.get('wall_replay')
    if rp is not None:
        i = M.env.get('wall_replay_pos', 0)
        if i < len(rp):
            M.env['wall_replay_pos'] = i + 1
            return rp[i]
    t = M.fresh_bv('now', 64)
    if prev is not None: M.assume(z3.UGE(t, prev))
    lo = M.env.get('wall_min')
    if lo is not None and prev is None: M.assume(z3.UGE(t, lo))
    M.assume(z3.ULT(t, z3.BitVecVal(1 << 62, 64)))
    M.env['wall_prev'] = t
    M.env.setdefault('wall_log', []).append(t)
    return t

@model('std::time::SystemTime::now')
def systemtime_now(M, ctx):
    return Adt('SystemTime', 0, [wall_now(M)])

@model('std::time::SystemTime::duration_since')
def systemtime_duration_since(M, ctx, a, b):
    x = M.rdd(a); y = M.rdd(b) if isinstance(b, (Ref, BoxV)) else b
    xs = x.fields[0] if isinstance(x, Adt) else 0
    ys = y.fields[0] if isinstance(y, Adt) and y.name == 'SystemTime' else 0
    if isinstance(ys, int) and ys == 0:
        return ok(Adt('Duration', 0, [xs, 0]))
    lt = M.binop_t('Lt', xs, ys, 'u64')
    if M.branch(lt): return err(Opaque('SystemTimeError'))
    return ok(Adt('Duration', 0, [M.binop_t('Sub', xs, ys, 'u64'), 0]))

@model('std::time::SystemTime::elapsed')
def systemtime_elapsed(M, ctx, a):
    return systemtime_duration_since(M, ctx, Adt('SystemTime', 0, [wall_now(M)]), a)

@model('std::time::Instant::now', 'tokio::time::Instant::now')
def instant_now(M, ctx):
    return Adt('SystemTime', 0, [wall_now(M)])

# ------------------------------------------------------------------------------------------ Framed / streams
class NextFuture(ModelFuture):
    def __init__(self, stream_ref): self.stream_ref = stream_ref
    def poll(self, M, cx):
        s = M.rdd(self.stream_ref)
        pin = Adt('Pin', 0, [self.stream_ref if isinstance(self.stream_ref, Ref) else Ref(Cell(s))])
        if isinstance(s, Adt):
            r = M.prog.impl_index.get((s.name, 'Stream', 'poll_next'))
            if r:
                return M.run_fn(r[0], [pin, cx])
        return stream_poll_next(M, None, pin, cx)

@model('tokio_stream::StreamExt::next', 'futures::StreamExt::next', 'futures::stream::StreamExt::next')
def stream_next(M, ctx, r):
    return NextFuture(r)

@model('futures::Stream::poll_next', 'futures::stream::Stream::poll_next', 'tokio_stream::Stream::poll_next', 'futures_core::stream::Stream::poll_next')
def stream_poll_next(M, ctx, pin, cx):
    p = pin.fields[0] if isinstance(pin, Adt) and pin.name == 'Pin' else pin
    s = M.rdd(p)
    if isinstance(s, Adt) and s.name == 'Pin':
        s = M.rdd(s.fields[0])
    if isinstance(s, Adt) and s.name == 'Framed':
        src = s.fields[0]
        return src.poll_next(M)
    if isinstance(s, Adt):
        r = M.prog.impl_index.get((s.name, 'Stream', 'poll_next'))
        if r: return M.run_fn(r[0], [pin, cx])
    raise EncoderGap('Stream::poll_next on ' + repr(s))

class LineSource:
    """the framed socket of one connection: a script of incoming items (lines / errors / eof), and the written output"""
    def __init__(self, items=None):
        self.items = list(items or [])       # each: ('line', StringV) | ('toolong',) | ('ioerr',) | ('eof',) | ('pending',)
        self.written = []                    # lines handed to the sink, in order
        self.flushed = 0
    def poll_next(self, M):
        if not self.items: return pending()
        it = self.items[0]
        if it[0] == 'pending':
            self.items.pop(0); return pending()
        if it[0] == 'at':
            # an input line that arrives at a virtual time
            c = clock(M)
            if M.branch(M.binop_t('Le', it[1], c.now, 'u64')):
                self.items.pop(0)
                return ready(some(ok(it[2])))
            timers = M.env.setdefault('timers', [])
            if not any(getattr(t, 'deadline', None) is it[1] for t in timers): timers.append(SleepFuture(it[1]))
            return pending()
        self.items.pop(0)
        if it[0] == 'line': return ready(some(ok(it[1])))
        if it[0] == 'toolong': return ready(some(err(Adt('LinesCodecError', 0, []))))
        if it[0] == 'ioerr': return ready(some(err(Adt('LinesCodecError', 1, [Opaque('io error')]))))
        if it[0] == 'eof': return ready(NONE())
        raise EncoderGap('line source item ' + repr(it))

def mk_framed(src):
    return Adt('Framed', 0, [src])

@model('tokio_util::codec::Framed::new')
def framed_new(M, ctx, stream, codec):
    src = stream if isinstance(stream, LineSource) else LineSource()
    return mk_framed(src)

@model('tokio_util::codec::Framed::get_ref', 'tokio_util::codec::Framed::get_mut')
def framed_get_ref(M, ctx, r):
    return Ref(Cell(Adt('DualTcpStream', 0, [Opaque('TcpStream')])))

@model('futures::SinkExt::feed', 'futures::sink::SinkExt::feed', 'futures::SinkExt::send', 'futures::sink::SinkExt::send')
def sink_feed(M, ctx, r, item):
    s = M.rdd(r)
    if isinstance(s, Adt) and s.name == 'Framed':
        src = s.fields[0]
        def go():
            src.written.append(item); return ok(Tup())
        return ThunkFuture(go)
    raise EncoderGap('SinkExt::feed on ' + repr(s))

@model('futures::SinkExt::flush', 'futures::sink::SinkExt::flush')
def sink_flush(M, ctx, r):
    s = M.rdd(r)
    if isinstance(s, Adt) and s.name == 'Framed':
        src = s.fields[0]
        def go():
            src.flushed = len(src.written); return ok(Tup())
        return ThunkFuture(go)
    raise EncoderGap('SinkExt::flush on ' + repr(s))

@model('tokio_util::codec::LinesCodec::new_with_max_length', 'tokio_util::codec::LinesCodec::new')
def linescodec_new(M, ctx, *a):
    return Adt('LinesCodec', 0, list(a))

@model('tokio_util::codec::Decoder::decode', 'tokio_util::codec::Decoder::decode_eof', 'tokio_util::codec::decoder::Decoder::decode', 'tokio_util::codec::decoder::Decoder::decode_eof')
def lines_codec_decode(M, ctx, this, buf):
    # the inner line decoder of tokio_util: the harness supplies what it returns (any Result<Option<String>, LinesCodecError>)
    r = M.env.get('inner_decode')
    if r is None: raise EncoderGap('LinesCodec::decode without a harness result')
    M.env.setdefault('inner_decode_calls', []).append(ctx.method if hasattr(ctx, 'method') else 'decode')
    return r

# bytes::BytesMut for IRCLinesCodec::encode ------------------------------------------------------------------
@model('bytes::BytesMut::new', 'bytes::BytesMut::with_capacity')
def bytesmut_new(M, ctx, *a): return VecV()
@model('bytes::BytesMut::reserve')
def bytesmut_reserve(M, ctx, r, n): return unit()
@model('bytes::BufMut::put', 'bytes::BufMut::put_slice', 'bytes::BytesMut::extend_from_slice')
def bufmut_put(M, ctx, r, src):
    from .str_m import as_str
    v = M.rdd(r)
    v.items.extend(Cell(b) for b in as_str(M, src).bytes())
    return unit()
@model('bytes::BufMut::put_u8')
def bufmut_put_u8(M, ctx, r, b):
    M.rdd(r).items.append(Cell(b)); return unit()
