"""Iterator adapters as lazy python generators; closures are called back into MIR."""
import z3
from . import model, pattern
from ..values import *
from ..machine import type_head
from .core_m import unit, opt_is_some, res_is_ok, default_of

def to_iter(M, v):
    """IntoIterator::into_iter on a runtime value"""
    if isinstance(v, Iter): return v
    if isinstance(v, (Ref, BoxV)):
        inner = M.rd(v)
        if isinstance(inner, Iter): return inner
        if isinstance(inner, VecV): return Iter(iter([Ref(c) for c in inner.items]), 'slice::Iter')
        if isinstance(inner, Slice): return Iter(iter([Ref(c) for c in inner.cells()]), 'slice::Iter')
        if isinstance(inner, HMap):
            from .coll_m import iter_slots, _owned_key
            def item(s):
                return Ref(Cell(_owned_key(s))) if inner.is_set else Tup([Ref(Cell(_owned_key(s))), Ref(s[2])])
            def gen():
                for s in iter_slots(M, inner):
                    yield item(s)
            return Iter(gen(), 'hash::Iter', [(s[1], (lambda s=s: item(s))) for s in inner.slots])
        if isinstance(inner, Tup):
            return Iter(iter([Ref(v.cell, v.path + (('ix', i),)) if isinstance(v, Ref) else Ref(Cell(x)) for i, x in enumerate(inner)]), 'array::Iter')
        if isinstance(inner, Adt) and inner.name == 'Option':
            def geno():
                if opt_is_some(M, inner): yield Ref(v.cell, v.path + (0,)) if isinstance(v, Ref) else Ref(Cell(inner.fields[0]))
            return Iter(geno(), 'option::Iter')
        if isinstance(inner, (Ref, BoxV)):
            return to_iter(M, inner)
        raise EncoderGap(f'into_iter on &{type(inner).__name__}')
    if isinstance(v, VecV): return Iter(iter([c.v for c in v.items]), 'vec::IntoIter')
    if isinstance(v, Slice): return Iter(iter([Ref(c) for c in v.cells()]), 'slice::Iter')
    if isinstance(v, Tup): return Iter(iter(list(v)), 'array::IntoIter')
    if isinstance(v, HMap):
        from .coll_m import iter_slots, _owned_key
        def gen2():
            for s in iter_slots(M, v):
                yield _owned_key(s) if v.is_set else Tup([_owned_key(s), s[2].v])
        return Iter(gen2(), 'hash::IntoIter')
    if isinstance(v, Adt):
        if v.name == 'Option':
            def geno2():
                if opt_is_some(M, v): yield v.fields[0]
            return Iter(geno2(), 'option::IntoIter')
        if v.name == 'Result':
            def genr():
                if res_is_ok(M, v): yield v.fields[0]
            return Iter(genr(), 'result::IntoIter')
        if v.name in ('Range', 'RangeInclusive'):
            return Iter(range_gen(M, v), 'Range')
        if v.name == 'RangeFrom':
            def genf():
                i = v.fields[0]
                while True:
                    yield i; i = i + 1
            return Iter(genf(), 'RangeFrom')
    if isinstance(v, Str):
        return Iter(iter(v.bytes()), 'bytes')
    raise EncoderGap(f'into_iter on {type(v).__name__}')

def range_gen(M, r):
    a, b = r.fields[0], r.fields[1]
    incl = r.name == 'RangeInclusive'
    i = a
    while True:
        c = M.binop_t('Le' if incl else 'Lt', i, b, 'usize')
        if not M.branch(c): return
        yield i
        i = M.binop_t('Add', i, 1, 'usize')

def the_iter(M, r):
    v = M.rd(r) if isinstance(r, (Ref, BoxV)) else r
    while isinstance(v, (Ref, BoxV)):
        v = M.rd(v)
    if isinstance(v, Iter): return v
    if isinstance(v, Adt) and v.name in ('Range', 'RangeInclusive', 'RangeFrom'):
        # ranges are stateful values: convert in place
        it = to_iter(M, v)
        if isinstance(r, Ref): M.store(r.cell, r.path, it)
        return it
    raise EncoderGap(f'expected iterator, got {type(v).__name__}')

I = 'std::iter::Iterator::'

@model('std::iter::IntoIterator::into_iter')
def into_iter_m(M, ctx, v):
    return to_iter(M, v)

@model(I + 'next', 'std::iter::DoubleEndedIterator::next_back_unsupported')
def iter_next(M, ctx, r):
    it = the_iter(M, r)
    it.sym_slots = None
    if it.peek:
        return it.peek.pop(0)
    try:
        return some(next(it.gen))
    except StopIteration:
        return NONE()

def _pull(M, it):
    """python generator over remaining items honouring peeked ones"""
    it.sym_slots = None
    pk = it.peek
    while pk:
        o = pk.pop(0)
        if o.variant == 1: yield o.fields[0]
        else: return
    for x in it.gen:
        yield x

def adapt(tag):
    def deco(f):
        def wrapper(M, ctx, it, *a):
            src = to_iter(M, it) if not isinstance(it, Iter) else it
            return Iter(f(M, ctx, _pull(M, src), *a), tag)
        return wrapper
    return deco

@model(I + 'enumerate')
@adapt('Enumerate')
def iter_enumerate(M, ctx, g):
    i = 0
    for x in g:
        yield Tup([i, x]); i += 1

@model(I + 'zip')
def iter_zip(M, ctx, a, b):
    ga, gb = _pull(M, to_iter(M, a)), _pull(M, to_iter(M, b))
    def gen():
        for x in ga:
            try: y = next(gb)
            except StopIteration: return
            yield Tup([x, y])
    return Iter(gen(), 'Zip')

@model(I + 'chain')
def iter_chain(M, ctx, a, b):
    ga, gb = _pull(M, to_iter(M, a)), _pull(M, to_iter(M, b))
    def gen():
        for x in ga: yield x
        for y in gb: yield y
    return Iter(gen(), 'Chain')

@model(I + 'rev')
def iter_rev(M, ctx, it):
    items = list(_pull(M, to_iter(M, it)))
    return Iter(iter(items[::-1]), 'Rev')

@model(I + 'take')
@adapt('Take')
def iter_take(M, ctx, g, n):
    n = M.concretize(n)
    if n == 0: return
    k = 0
    for x in g:
        yield x; k += 1
        if k >= n: return

@model(I + 'skip')
@adapt('Skip')
def iter_skip(M, ctx, g, n):
    n = M.concretize(n)
    k = 0
    for x in g:
        if k >= n: yield x
        k += 1

@model(I + 'step_by')
@adapt('StepBy')
def iter_step_by(M, ctx, g, n):
    n = M.concretize(n); k = 0
    for x in g:
        if k % n == 0: yield x
        k += 1

@model(I + 'map')
@adapt('Map')
def iter_map(M, ctx, g, f):
    for x in g: yield M.call_value(f, [x])

@model(I + 'filter')
@adapt('Filter')
def iter_filter(M, ctx, g, f):
    for x in g:
        if M.branch(M.call_value(f, [Ref(Cell(x))])): yield x

@model(I + 'filter_map')
@adapt('FilterMap')
def iter_filter_map(M, ctx, g, f):
    for x in g:
        o = M.call_value(f, [x])
        if opt_is_some(M, o): yield o.fields[0]

@model(I + 'flat_map')
@adapt('FlatMap')
def iter_flat_map(M, ctx, g, f):
    for x in g:
        for y in _pull(M, to_iter(M, M.call_value(f, [x]))): yield y

@model(I + 'flatten')
@adapt('Flatten')
def iter_flatten(M, ctx, g):
    for x in g:
        for y in _pull(M, to_iter(M, x)): yield y

@model(I + 'take_while')
@adapt('TakeWhile')
def iter_take_while(M, ctx, g, f):
    for x in g:
        if not M.branch(M.call_value(f, [Ref(Cell(x))])): return
        yield x

@model(I + 'skip_while')
@adapt('SkipWhile')
def iter_skip_while(M, ctx, g, f):
    skipping = True
    for x in g:
        if skipping and M.branch(M.call_value(f, [Ref(Cell(x))])): continue
        skipping = False
        yield x

@model(I + 'map_while')
@adapt('MapWhile')
def iter_map_while(M, ctx, g, f):
    for x in g:
        o = M.call_value(f, [x])
        if not opt_is_some(M, o): return
        yield o.fields[0]

@model(I + 'inspect')
@adapt('Inspect')
def iter_inspect(M, ctx, g, f):
    for x in g:
        M.call_value(f, [Ref(Cell(x))]); yield x

@model(I + 'copied', I + 'cloned')
@adapt('Cloned')
def iter_cloned(M, ctx, g):
    for x in g: yield deep_copy(M.rd(x))

@model(I + 'by_ref', I + 'fuse')
def iter_by_ref(M, ctx, r):
    return r if ctx.method == 'by_ref' else to_iter(M, r)

@model(I + 'peekable')
def iter_peekable(M, ctx, it):
    src = to_iter(M, it)
    src.peek = []
    return src

@model('std::iter::Peekable::peek', 'std::iter::Peekable::peek_mut')
def peekable_peek(M, ctx, r):
    it = the_iter(M, r)
    if not it.peek:
        it.peek = []
        try: it.peek.append(some(next(it.gen)))
        except StopIteration: it.peek.append(NONE())
    o = it.peek[0]
    return some(Ref(Cell(o.fields[0]))) if o.variant == 1 else NONE()

@model('std::iter::Peekable::next_if', 'std::iter::Peekable::next_if_eq')
def peekable_next_if(M, ctx, r, f):
    p = peekable_peek(M, ctx, r)
    if p.variant == 0: return NONE()
    it = the_iter(M, r)
    x = it.peek[0].fields[0]
    c = M.call_value(f, [Ref(Cell(x))]) if ctx.method == 'next_if' else M.values_equal(x, f)
    if M.branch(c):
        it.peek.pop(0); return some(x)
    return NONE()

def _merged(M, it, f, is_any):
    """fork-free any/all over a map-backed iterator: evaluate the predicate on every slot and combine with liveness.
    A predicate that panics on a slot panics on this path only if that slot is live."""
    terms = []
    for live, thunk in it.sym_slots:
        if isinstance(live, bool) and not live: continue
        try:
            r = M.call_value(f, [thunk()])
        except Panic:
            if M.branch(live): raise
            continue
        if is_any: terms.append(M.and_all([live, r]))
        else: terms.append(M.or_all([M.not_(live), r]))
    it.sym_slots = None
    it.gen = iter(())
    return M.or_all(terms) if is_any else M.and_all(terms)

@model(I + 'all')
def iter_all(M, ctx, r, f):
    it = the_or_to(M, r)
    if it.sym_slots is not None and not it.peek: return _merged(M, it, f, False)
    for x in _pull(M, it):
        if not M.branch(M.call_value(f, [x])): return False
    return True

@model(I + 'any')
def iter_any(M, ctx, r, f):
    it = the_or_to(M, r)
    if it.sym_slots is not None and not it.peek: return _merged(M, it, f, True)
    for x in _pull(M, it):
        if M.branch(M.call_value(f, [x])): return True
    return False

def the_or_to(M, r):
    if isinstance(r, Iter): return r
    try:
        return the_iter(M, r)
    except EncoderGap:
        return to_iter(M, r)

@model(I + 'find')
def iter_find(M, ctx, r, f):
    for x in _pull(M, the_or_to(M, r)):
        if M.branch(M.call_value(f, [Ref(Cell(x))])): return some(x)
    return NONE()

@model(I + 'find_map')
def iter_find_map(M, ctx, r, f):
    for x in _pull(M, the_or_to(M, r)):
        o = M.call_value(f, [x])
        if opt_is_some(M, o): return o
    return NONE()

@model(I + 'position')
def iter_position(M, ctx, r, f):
    i = 0
    for x in _pull(M, the_or_to(M, r)):
        if M.branch(M.call_value(f, [x])): return some(i)
        i += 1
    return NONE()

@model(I + 'for_each')
def iter_for_each(M, ctx, it, f):
    for x in _pull(M, the_or_to(M, it)):
        M.call_value(f, [x])
    return unit()

@model(I + 'try_for_each')
def iter_try_for_each(M, ctx, r, f):
    rty = 'Result'
    for x in _pull(M, the_or_to(M, r)):
        res = M.call_value(f, [x])
        if res.name == 'Result':
            if not res_is_ok(M, res): return res
        elif res.name == 'Option':
            rty = 'Option'
            if not opt_is_some(M, res): return res
        elif res.name == 'ControlFlow':
            rty = 'ControlFlow'
            if res.variant == 1: return res
        else:
            raise EncoderGap('try_for_each with ' + res.name)
    return ok(Tup()) if rty == 'Result' else (some(Tup()) if rty == 'Option' else Adt('ControlFlow', 0, [Tup()]))

@model(I + 'fold')
def iter_fold(M, ctx, it, init, f):
    acc = init
    for x in _pull(M, the_or_to(M, it)):
        acc = M.call_value(f, [acc, x])
    return acc

@model(I + 'try_fold')
def iter_try_fold(M, ctx, r, init, f):
    acc = init
    for x in _pull(M, the_or_to(M, r)):
        res = M.call_value(f, [acc, x])
        if res.name == 'Result':
            if not res_is_ok(M, res): return res
            acc = res.fields[0]
        elif res.name == 'Option':
            if not opt_is_some(M, res): return res
            acc = res.fields[0]
        else: raise EncoderGap('try_fold with ' + res.name)
    return ok(acc)

@model(I + 'count')
def iter_count(M, ctx, it):
    return sum(1 for _ in _pull(M, the_or_to(M, it)))

@model(I + 'last')
def iter_last(M, ctx, it):
    last = None; got = False
    for x in _pull(M, the_or_to(M, it)): last = x; got = True
    return some(last) if got else NONE()

@model(I + 'nth')
def iter_nth(M, ctx, r, n):
    n = M.concretize(n)
    k = 0
    for x in _pull(M, the_or_to(M, r)):
        if k == n: return some(x)
        k += 1
    return NONE()

@model(I + 'sum')
def iter_sum(M, ctx, it):
    acc = 0
    for x in _pull(M, the_or_to(M, it)):
        acc = M.binop_t('Add', acc, M.rdd(x), (ctx.targs or 'usize'))
    return acc

@model(I + 'max', I + 'min')
def iter_minmax(M, ctx, it):
    best = None
    for x in _pull(M, the_or_to(M, it)):
        if best is None: best = x; continue
        lt = M.binop_t('Lt', M.rdd(best), M.rdd(x), 'usize')
        if M.branch(lt) == (ctx.method == 'max'): best = x
    return some(best) if best is not None else NONE()

@model(I + 'size_hint')
def iter_size_hint(M, ctx, r):
    return Tup([0, NONE()])

@model(I + 'collect')
def iter_collect(M, ctx, it):
    return collect_into(M, _pull(M, the_or_to(M, it)), ctx.targs or '')

@model('std::iter::FromIterator::from_iter')
def from_iter_m(M, ctx, it):
    return collect_into(M, _pull(M, to_iter(M, it)), ctx.self_ty or '')

@model('std::iter::Extend::extend')
def extend_m(M, ctx, r, it):
    v = M.rdd(r)
    items = _pull(M, to_iter(M, it))
    if isinstance(v, VecV):
        for x in items: v.items.append(Cell(x))
    elif isinstance(v, StringV):
        from .str_m import as_str, encode_char
        for x in items:
            xv = M.rdd(x) if isinstance(x, (Ref, BoxV)) else x
            if isinstance(xv, (Str, StringV)): v.data.extend(as_str(M, xv).bytes())
            else: v.data.extend(encode_char(M, xv))
    elif isinstance(v, HMap):
        from .coll_m import hm_insert
        class _C: method = 'insert'; key = 'x'
        for x in items:
            if v.is_set: hm_insert(M, _C, r, x)
            else: hm_insert(M, _C, r, x[0], x[1])
    else:
        raise EncoderGap('Extend on ' + type(v).__name__)
    return unit()

def collect_into(M, gen, ty):
    h = type_head(ty)
    if h in ('Vec', 'VecDeque', 'Box') or ty.strip().startswith('std::vec::Vec') or h == '_':
        return VecV(list(gen))
    if h in ('HashSet', 'BTreeSet', 'HashMap', 'BTreeMap'):
        from .coll_m import hm_insert
        is_set = h.endswith('Set')
        hm = HMap(is_set); ref = Ref(Cell(hm))
        class _C: method = 'insert'; key = 'x'
        for x in gen:
            if is_set: hm_insert(M, _C, ref, x)
            else: hm_insert(M, _C, ref, x[0], x[1])
        return hm
    if h == 'String':
        from .str_m import as_str, encode_char
        out = []
        for x in gen:
            xv = M.rdd(x) if isinstance(x, (Ref, BoxV)) else x
            if isinstance(xv, (Str, StringV)): out.extend(as_str(M, xv).bytes())
            else: out.extend(encode_char(M, xv))
        return StringV(out)
    if h == 'Result':
        from ..mir import split_top
        inner = split_top(ty[ty.index('<') + 1:-1])[0]
        items = []
        for x in gen:
            if not res_is_ok(M, x): return x
            items.append(x.fields[0])
        return ok(collect_into(M, iter(items), inner))
    if h == 'Option':
        inner = ty[ty.index('<') + 1:-1]
        items = []
        for x in gen:
            if not opt_is_some(M, x): return NONE()
            items.append(x.fields[0])
        return some(collect_into(M, iter(items), inner))
    raise EncoderGap('collect into ' + ty)

@model('std::iter::DoubleEndedIterator::next_back', 'std::iter::DoubleEndedIterator::rfind', 'std::iter::DoubleEndedIterator::rposition')
def iter_next_back(M, ctx, r, *a):
    it = the_iter(M, r)
    items = list(_pull(M, it))
    if ctx.method == 'next_back':
        if not items:
            it.gen = iter(()); return NONE()
        last = items.pop()
        it.gen = iter(items)
        return some(last)
    if ctx.method == 'rfind':
        for x in reversed(items):
            if M.branch(M.call_value(a[0], [Ref(Cell(x))])): return some(x)
        return NONE()
    for i in range(len(items) - 1, -1, -1):
        if M.branch(M.call_value(a[0], [items[i]])): return some(i)
    return NONE()

@model('std::iter::ExactSizeIterator::len')
def iter_len(M, ctx, r):
    it = the_iter(M, r)
    items = list(_pull(M, it))
    it.gen = iter(items)
    return len(items)

@model('std::iter::once')
def iter_once(M, ctx, v):
    return Iter(iter([v]), 'Once')

@model('std::iter::empty')
def iter_empty(M, ctx):
    return Iter(iter(()), 'Empty')

@model('std::iter::repeat')
def iter_repeat(M, ctx, v):
    def gen():
        while True: yield deep_copy(v)
    return Iter(gen(), 'Repeat')
