"""tracing (disabled), flagset, chrono, argon2 (uninterpreted verify), validator, net, misc."""
import z3
from . import model, pattern, override
from ..values import *
from ..machine import type_head
from .core_m import unit
from .str_m import as_str
from .tokio_m import ModelFuture, ready, pending, wall_now, ThunkFuture

# ------------------------------------------------------------------------------------------ tracing: logging disabled
@model('std::cmp::PartialOrd::le')
def partial_le(M, ctx, a, b):
    st = ctx.self_ty or ''
    if 'tracing' in st and 'Level' in st:
        return False                       # Level <= LevelFilter: logging is off, no effect on state or wire
    from .core_m import partial_ord
    return partial_ord(M, ctx, a, b)

@pattern(r'tracing(_core)?::.*')
def tracing_any(M, ctx, *a):
    return Opaque('tracing')

# ------------------------------------------------------------------------------------------ flagset
def flagset_bits(M, v):
    v = M.rdd(v) if isinstance(v, (Ref, BoxV)) else v
    if isinstance(v, Adt) and v.name == 'FlagSet': return v.fields[0]
    if isinstance(v, Adt):
        r = M.prog.impl_index.get(('FlagSet', 'From', 'from'))
        if r:
            for name in r:
                fn = M.prog.fns[name]
                if v.name in fn.sig:
                    return M.run_fn(name, [v]).fields[0]
        return M.prog.discr_value(v)
    if isinstance(v, int) or is_sym(v): return v
    raise EncoderGap('flagset bits of ' + repr(v))

def flagset_of(M, v):
    return Adt('FlagSet', 0, [flagset_bits(M, v)])

@model('flagset::FlagSet::new_unchecked', 'flagset::FlagSet::new_truncated')
def flagset_new_unchecked(M, ctx, bits): return Adt('FlagSet', 0, [bits])
@model('flagset::FlagSet::new')
def flagset_new(M, ctx, bits): return ok(Adt('FlagSet', 0, [bits]))
@model('flagset::FlagSet::bits')
def flagset_bits_m(M, ctx, f): return flagset_bits(M, f)
@model('flagset::FlagSet::is_empty')
def flagset_is_empty(M, ctx, f): return M.binop_t('Eq', flagset_bits(M, f), 0, 'u8')
@model('flagset::FlagSet::contains')
def flagset_contains(M, ctx, f, o):
    a, b = flagset_bits(M, f), flagset_bits(M, o)
    return M.binop_t('Eq', M.binop_t('BitAnd', a, b, 'u8'), b, 'u8')
@model('flagset::FlagSet::is_disjoint')
def flagset_is_disjoint(M, ctx, f, o):
    return M.binop_t('Eq', M.binop_t('BitAnd', flagset_bits(M, f), flagset_bits(M, o), 'u8'), 0, 'u8')
@model('flagset::FlagSet::is_full')
def flagset_is_full(M, ctx, f): raise EncoderGap('FlagSet::is_full')
@model('flagset::FlagSet::clear')
def flagset_clear(M, ctx, r):
    M.rdd(r).fields[0] = 0; return unit()

def _fs_binop(op):
    def f(M, ctx, a, b):
        st = type_head(ctx.self_ty or '')
        x = M.rdd(a) if isinstance(a, (Ref, BoxV)) else a
        if isinstance(x, Adt) and (x.name == 'FlagSet' or st == 'FlagSet' or x.name in M.prog.enum_discr or x.name in getattr(M.prog, 'flag_bits', {})):
            return Adt('FlagSet', 0, [M.binop_t(op, flagset_bits(M, a), flagset_bits(M, b), 'u8')])
        if isinstance(x, (int, bool)) or is_sym(x):
            return M.binop_t(op, x, b, st)
        if isinstance(x, HMap):
            raise EncoderGap('set operator on HashSet')
        raise EncoderGap(f'{op} on {x!r}')
    return f
model('std::ops::BitOr::bitor')(_fs_binop('BitOr'))
model('std::ops::BitAnd::bitand')(_fs_binop('BitAnd'))
model('std::ops::BitXor::bitxor')(_fs_binop('BitXor'))

def _fs_assign(op):
    def f(M, ctx, r, b):
        x = M.rd(r)
        if isinstance(x, Adt) and x.name == 'FlagSet':
            x.fields[0] = M.binop_t(op, x.fields[0], flagset_bits(M, b), 'u8'); return unit()
        if isinstance(x, (int, bool)) or is_sym(x):
            M.store(r.cell, r.path, M.binop_t(op, x, b, type_head(ctx.self_ty or 'usize'))); return unit()
        raise EncoderGap(f'{op}Assign on {x!r}')
    return f
model('std::ops::BitOrAssign::bitor_assign')(_fs_assign('BitOr'))
model('std::ops::BitAndAssign::bitand_assign')(_fs_assign('BitAnd'))
model('std::ops::BitXorAssign::bitxor_assign')(_fs_assign('BitXor'))
model('std::ops::SubAssign::sub_assign')(_fs_assign('Sub'))
model('std::ops::MulAssign::mul_assign')(_fs_assign('Mul'))

@model('std::ops::Not::not')
def not_m(M, ctx, a):
    x = M.rdd(a) if isinstance(a, (Ref, BoxV)) else a
    if isinstance(x, Adt):
        bits = flagset_bits(M, x)
        full = M.env.get('flagset_full', 0x3f)
        if isinstance(bits, int): return Adt('FlagSet', 0, [(~bits) & full])
        return Adt('FlagSet', 0, [(~bits) & full])
    if isinstance(x, bool): return not x
    if is_sym(x): return z3.Not(x) if z3.is_bool(x) else ~x
    raise EncoderGap('Not on ' + repr(x))

@model('std::ops::Sub::sub')
def sub_m(M, ctx, a, b):
    if isinstance(a, Adt) and a.name in ('DateTime', 'SystemTime'):
        # the uptime is an arbitrary environment value that no property depends on: one representative (1 day 2:03:04)
        return Adt('TimeDelta', 0, [93784])
    return M.binop_t('Sub', _num(M, a), _num(M, b), type_head(ctx.self_ty or 'usize'))
def _num(M, x):
    return M.rdd(x) if isinstance(x, (Ref, BoxV)) else x
@model('std::ops::Mul::mul')
def mul_m(M, ctx, a, b): return M.binop_t('Mul', _num(M, a), _num(M, b), type_head(ctx.self_ty or 'usize'))
@model('std::ops::Div::div')
def div_m(M, ctx, a, b): return M.binop_t('Div', _num(M, a), _num(M, b), type_head(ctx.self_ty or 'usize'))
@model('std::ops::Rem::rem')
def rem_m(M, ctx, a, b): return M.binop_t('Rem', _num(M, a), _num(M, b), type_head(ctx.self_ty or 'usize'))

# ------------------------------------------------------------------------------------------ chrono
class TimeText:
    """opaque textual rendering of a clock value"""
    def __init__(self, kind, t): self.kind, self.t = kind, t
    def render(self, M, out):
        out.extend(('<%s>' % self.kind).encode())

@model('chrono::Local::now', 'chrono::Utc::now', 'chrono::offset::Local::now', 'chrono::offset::Utc::now')
def chrono_now(M, ctx): return Adt('DateTime', 0, [wall_now(M)])
@model('chrono::DateTime::timestamp')
def chrono_timestamp(M, ctx, r): return M.rdd(r).fields[0]
@model('chrono::DateTime::to_rfc2822', 'chrono::DateTime::to_rfc3339')
def chrono_to_rfc(M, ctx, r):
    return StringV(list(b'<rfc2822 time>'))
@model('chrono::NaiveDateTime::from_timestamp', 'chrono::DateTime::from_utc', 'chrono::NaiveDateTime::from_timestamp_opt')
def chrono_from(M, ctx, *a):
    v = a[0]
    if isinstance(v, Adt) and v.name == 'DateTime': return v
    return Adt('DateTime', 0, [v])
@model('chrono::TimeDelta::num_seconds', 'chrono::Duration::num_seconds')
def chrono_num_seconds(M, ctx, r): return M.rdd(r).fields[0]

from .fmt_m import render_display as _rd   # noqa

def _dt_render(self_adt, M, out):
    out.extend(b'<datetime>')

# ------------------------------------------------------------------------------------------ argon2: uninterpreted verify
@override('utils::argon2_verify_password_async')
def argon2_verify_async(M, ctx, password, hash_str):
    def go():
        sched = None
        f = M.env.get('verify')
        pw, hs = as_str(M, password), as_str(M, hash_str)
        if f is None:
            c = M.fresh_bool('argon2_ok')
        else:
            c = f(M, pw, hs)
        if M.branch(c): return ok(Tup())
        return err(Opaque('password hash error'))
    class VerifyFuture(ModelFuture):
        def __init__(s): s.polled = False
        def poll(s, M2, cx):
            sched = M2.env.get('sched')
            if sched is not None and not s.polled:
                s.polled = True
                if sched.yield_point(M2, 'argon2'): return pending()
            return ready(go())
    return VerifyFuture()

@override('utils::argon2_verify_password')
def argon2_verify(M, ctx, password, hash_str):
    f = M.env.get('verify')
    pw, hs = as_str(M, password), as_str(M, hash_str)
    c = M.fresh_bool('argon2_ok') if f is None else f(M, pw, hs)
    return ok(Tup()) if M.branch(c) else err(Opaque('password hash error'))

@override('utils::argon2_hash_password')
def argon2_hash(M, ctx, password):
    return StringV(list(b'<argon2 hash>'))

@model('argon2::password_hash::Output::b64_decode')
def b64_decode(M, ctx, s):
    """base64 (no padding, standard alphabet '+/'): length rule and alphabet on symbolic bytes"""
    v = as_str(M, s)
    bs = v.bytes()
    n = len(bs)
    def isb64(b):
        if isinstance(b, int):
            return (65 <= b <= 90) or (97 <= b <= 122) or (48 <= b <= 57) or b in (43, 47)
        return z3.Or(z3.And(z3.UGE(b, 65), z3.ULE(b, 90)), z3.And(z3.UGE(b, 97), z3.ULE(b, 122)), z3.And(z3.UGE(b, 48), z3.ULE(b, 57)), b == 43, b == 47)
    okc = M.and_all(isb64(b) for b in bs)
    if n % 4 == 1 or not M.branch(okc):
        return err(Opaque('password hash error'))
    outlen = n * 3 // 4
    # canonical encoding: trailing bits must be zero
    if n % 4 and bs:
        last = bs[-1]
        def sextet(b):
            if isinstance(b, int):
                if 65 <= b <= 90: return b - 65
                if 97 <= b <= 122: return b - 71
                if 48 <= b <= 57: return b + 4
                return 62 if b == 43 else 63
            return z3.If(z3.ULE(b, 43), z3.BitVecVal(62, 8), z3.If(z3.ULE(b, 47), z3.BitVecVal(63, 8), z3.If(z3.ULE(b, 57), b + 4, z3.If(z3.ULE(b, 90), b - 65, b - 71))))
        mask = 0x0f if n % 4 == 2 else 0x03
        sx = sextet(last)
        c = (sx & mask) == 0
        if not M.branch(c): return err(Opaque('password hash error'))
    if outlen < 10 or outlen > 64:
        return err(Opaque('password hash error'))
    return ok(Adt('Output', 0, [outlen]))

@model('argon2::password_hash::Output::len')
def output_len(M, ctx, r): return M.rdd(r).fields[0]

# ------------------------------------------------------------------------------------------ validator crate
@model('validator::ValidationError::new')
def validation_error_new(M, ctx, code): return Adt('ValidationError', 0, [code, HMap()])
@model('validator::ValidationError::add_param')
def validation_error_add_param(M, ctx, r, *a): return unit()
@model('validator::ValidationErrors::new')
def validation_errors_new(M, ctx): return Adt('ValidationErrors', 0, [VecV()])
@model('validator::ValidationErrors::add')
def validation_errors_add(M, ctx, r, field, e):
    M.rdd(r).fields[0].items.append(Cell(Tup([field, e]))); return unit()
@model('validator::ValidationErrors::is_empty')
def validation_errors_is_empty(M, ctx, r): return len(M.rdd(r).fields[0].items) == 0
@model('validator::ValidationErrors::has_error')
def validation_errors_has_error(M, ctx, r, field):
    res = M.rdd(r)
    if res.variant == 0: return False
    errs = res.fields[0]
    f = as_str(M, field).py()
    return any(as_str(M, c.v[0]).py() == f for c in errs.fields[0].items)
@model('validator::ValidationErrors::merge')
def validation_errors_merge(M, ctx, parent, field, child):
    if child.variant == 0: return parent
    if parent.variant == 0:
        return err(Adt('ValidationErrors', 0, [VecV([Tup([field, child.fields[0]])])]))
    parent.fields[0].fields[0].items.append(Cell(Tup([field, child.fields[0]])))
    return parent
@model('validator::ValidationErrors::merge_all')
def validation_errors_merge_all(M, ctx, parent, field, children):
    out = parent
    for c in children.items:
        out = validation_errors_merge(M, ctx, out, field, c.v)
    return out
@model('validator::validate_contains', 'validator::validation::contains::validate_contains')
def validate_contains(M, ctx, v, needle):
    from .str_m import str_contains
    return str_contains(M, ctx, v, needle)
@model('validator::validate_length', 'validator::validation::length::validate_length')
def validate_length(M, ctx, v, mn, mx, eq):
    from .core_m import opt_is_some
    s = M.rdd(v) if isinstance(v, (Ref, BoxV)) else v
    # validator counts chars for strings
    st = as_str(M, s)
    from .str_m import next_char_len
    n = 0; i = 0
    while i < len(st):
        i += next_char_len(M, st, i); n += 1
    r = True
    if opt_is_some(M, eq): return n == eq.fields[0]
    if opt_is_some(M, mn) and n < mn.fields[0]: r = False
    if opt_is_some(M, mx) and n > mx.fields[0]: r = False
    return r

# ------------------------------------------------------------------------------------------ net / misc
@model('std::net::SocketAddr::ip')
def socketaddr_ip(M, ctx, r):
    v = M.rdd(r)
    return v.fields[0] if isinstance(v, Adt) and v.fields else Opaque('ip', b'127.0.0.1')

@model('std::io::Error::new')
def io_error_new(M, ctx, kind, msg): return Opaque('io error')

@model('std::io::_print', 'std::io::_eprint')
def io_print(M, ctx, a): return unit()

@model('lazy_static::lazy::Lazy::get')
def lazy_get(M, ctx, r, init):
    raise EncoderGap('lazy_static (argon2 state) reached')

@model('std::env::var')
def env_var(M, ctx, k): return err(Opaque('VarError'))

@model('std::process::exit')
def process_exit(M, ctx, code): raise Panic('process::exit')

@model('std::any::type_name')
def type_name(M, ctx): return mkstr(ctx.targs or '?')
