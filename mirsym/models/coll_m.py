"""Vec / slices / HashMap / HashSet (slot lists with symbolic liveness)."""
import z3
from . import model, pattern
from ..values import *
from ..machine import type_head
from .core_m import unit, sub_ref, default_of, _generic_arg
from .str_m import as_str, range_bounds

# ------------------------------------------------------------------------------------------ Vec / slice
def as_cells(M, r):
    """list of cells (shared) of a Vec / slice / array value or reference"""
    v = r
    while isinstance(v, (Ref, BoxV)):
        parent = v
        v = M.rd(v)
        if isinstance(v, Tup):
            # array in place: make cells that write back is not supported -> copy semantic for reads
            return [Cell(x) for x in v]
    if isinstance(v, VecV): return v.items
    if isinstance(v, Slice): return v.cells()
    if isinstance(v, Tup): return [Cell(x) for x in v]
    if isinstance(v, Str): return [Cell(b) for b in v.bytes()]
    if isinstance(v, StringV): return [Cell(b) for b in v.data]
    raise EncoderGap(f'expected a slice, got {type(v).__name__}')

def as_vec(M, r):
    v = M.rdd(r)
    if not isinstance(v, VecV): raise EncoderGap(f'expected Vec, got {type(v).__name__}')
    return v

V = 'std::vec::Vec::'
SL = 'std::slice::<impl [T]>::'

@model(V + 'new', 'std::collections::VecDeque::new')
def vec_new(M, ctx): return VecV()

@model(V + 'with_capacity', 'std::collections::VecDeque::with_capacity')
def vec_with_capacity(M, ctx, n): return VecV()

@model(V + 'push', 'std::collections::VecDeque::push_back')
def vec_push(M, ctx, r, x):
    as_vec(M, r).items.append(Cell(x)); return unit()

@model(V + 'pop', 'std::collections::VecDeque::pop_back')
def vec_pop(M, ctx, r):
    v = as_vec(M, r)
    return some(v.items.pop().v) if v.items else NONE()

@model('std::collections::VecDeque::pop_front')
def vecdeque_pop_front(M, ctx, r):
    v = as_vec(M, r)
    return some(v.items.pop(0).v) if v.items else NONE()

@model('std::collections::VecDeque::push_front')
def vecdeque_push_front(M, ctx, r, x):
    as_vec(M, r).items.insert(0, Cell(x)); return unit()

@model(V + 'len', SL + 'len', 'std::collections::VecDeque::len')
def vec_len(M, ctx, r): return len(as_cells(M, r))

@model(V + 'is_empty', SL + 'is_empty', 'std::collections::VecDeque::is_empty')
def vec_is_empty(M, ctx, r): return len(as_cells(M, r)) == 0

@model(V + 'clear')
def vec_clear(M, ctx, r):
    del as_vec(M, r).items[:]; return unit()

@model(V + 'reserve', V + 'reserve_exact', V + 'shrink_to_fit')
def vec_reserve(M, ctx, r, *a): return unit()

@model(V + 'capacity')
def vec_capacity(M, ctx, r): return len(as_vec(M, r).items)

@model(V + 'truncate')
def vec_truncate(M, ctx, r, n):
    v = as_vec(M, r); n = M.concretize(n, range(len(v.items) + 1))
    del v.items[n:]; return unit()

@model(V + 'insert')
def vec_insert(M, ctx, r, i, x):
    v = as_vec(M, r); i = M.concretize(i, range(len(v.items) + 2))
    if i > len(v.items): raise Panic(f'insertion index (is {i}) should be <= len (is {len(v.items)})')
    v.items.insert(i, Cell(x)); return unit()

@model(V + 'remove')
def vec_remove(M, ctx, r, i):
    v = as_vec(M, r); i = M.concretize(i, range(len(v.items) + 1))
    if i >= len(v.items): raise Panic(f'removal index (is {i}) should be < len (is {len(v.items)})')
    return v.items.pop(i).v

@model(V + 'swap_remove')
def vec_swap_remove(M, ctx, r, i):
    v = as_vec(M, r); i = M.concretize(i, range(len(v.items) + 1))
    if i >= len(v.items): raise Panic(f'swap_remove index (is {i}) should be < len (is {len(v.items)})')
    last = v.items.pop()
    if i < len(v.items):
        out = v.items[i]; v.items[i] = last; return out.v
    return last.v

@model(V + 'drain')
def vec_drain(M, ctx, r, rng):
    v = as_vec(M, r)
    a, b = range_bounds(M, rng, len(v.items))
    if a > b: raise Panic(f'slice index starts at {a} but ends at {b}')
    if b > len(v.items): raise Panic(f'range end index {b} out of range for slice of length {len(v.items)}')
    out = v.items[a:b]; del v.items[a:b]
    return Iter(iter([c.v for c in out]), 'drain')

@model(V + 'append')
def vec_append(M, ctx, r, o):
    v = as_vec(M, r); w = as_vec(M, o)
    v.items.extend(w.items); w.items = []
    return unit()

@model(V + 'extend_from_slice')
def vec_extend_from_slice(M, ctx, r, s):
    v = as_vec(M, r)
    v.items.extend(Cell(deep_copy(c.v)) for c in as_cells(M, s)); return unit()

@model(V + 'retain', V + 'retain_mut')
def vec_retain(M, ctx, r, f):
    v = as_vec(M, r)
    keep = []
    for c in list(v.items):
        if M.branch(M.call_value(f, [Ref(c)])): keep.append(c)
    v.items[:] = keep
    return unit()

@model(V + 'dedup')
def vec_dedup(M, ctx, r):
    v = as_vec(M, r)
    out = []
    for c in v.items:
        if out and M.branch(M.values_equal(out[-1].v, c.v)): continue
        out.append(c)
    v.items[:] = out
    return unit()

@model(V + 'as_slice', V + 'as_mut_slice', V + 'leak', V + 'into_boxed_slice')
def vec_as_slice(M, ctx, r):
    return Slice(as_vec(M, r).items)

@model(V + 'split_off')
def vec_split_off(M, ctx, r, at):
    v = as_vec(M, r); at = M.concretize(at, range(len(v.items) + 2))
    if at > len(v.items): raise Panic(f'`at` split index (is {at}) should be <= len (is {len(v.items)})')
    out = VecV(); out.items = v.items[at:]; del v.items[at:]
    return out

@model(SL + 'iter', SL + 'iter_mut', V + 'iter', 'std::collections::VecDeque::iter')
def slice_iter(M, ctx, r):
    cells = as_cells(M, r)
    return Iter(iter([Ref(c) for c in cells]), 'slice::Iter')

@model(SL + 'get', SL + 'get_mut')
def slice_get(M, ctx, r, idx):
    cells = as_cells(M, r)
    if isinstance(idx, int) or is_sym(idx):
        i = M.concretize(idx, range(len(cells) + 1))
        return some(Ref(cells[i])) if i < len(cells) else NONE()
    a, b = range_bounds(M, idx, len(cells))
    if a > b or b > len(cells): return NONE()
    return some(Slice(cells, a, b))

@model(SL + 'get_unchecked', SL + 'get_unchecked_mut')
def slice_get_unchecked(M, ctx, r, idx):
    cells = as_cells(M, r)
    i = M.concretize(idx, range(len(cells) + 1))
    return Ref(cells[i])

@model(SL + 'first', SL + 'first_mut')
def slice_first(M, ctx, r):
    cells = as_cells(M, r)
    return some(Ref(cells[0])) if cells else NONE()

@model(SL + 'last', SL + 'last_mut')
def slice_last(M, ctx, r):
    cells = as_cells(M, r)
    return some(Ref(cells[-1])) if cells else NONE()

@model(SL + 'split_first')
def slice_split_first(M, ctx, r):
    cells = as_cells(M, r)
    return some(Tup([Ref(cells[0]), Slice(cells, 1, len(cells))])) if cells else NONE()

@model(SL + 'split_last')
def slice_split_last(M, ctx, r):
    cells = as_cells(M, r)
    return some(Tup([Ref(cells[-1]), Slice(cells, 0, len(cells) - 1)])) if cells else NONE()

@model(SL + 'split_at')
def slice_split_at(M, ctx, r, mid):
    cells = as_cells(M, r); mid = M.concretize(mid, range(len(cells) + 2))
    if mid > len(cells): raise Panic('mid > len')
    return Tup([Slice(cells, 0, mid), Slice(cells, mid, len(cells))])

@model(SL + 'contains')
def slice_contains(M, ctx, r, x):
    return M.or_all(M.values_equal(c.v, x) for c in as_cells(M, r))

@model(SL + 'starts_with')
def slice_starts_with(M, ctx, r, p):
    a, b = as_cells(M, r), as_cells(M, p)
    if len(b) > len(a): return False
    return M.and_all(M.values_equal(x.v, y.v) for x, y in zip(a, b))

@model(SL + 'chunks')
def slice_chunks(M, ctx, r, n):
    cells = as_cells(M, r); n = M.concretize(n)
    if n == 0: raise Panic('chunk size must be non-zero')
    return Iter(iter([Slice(cells, i, min(i + n, len(cells))) for i in range(0, len(cells), n)]), 'chunks')

@model(SL + 'windows')
def slice_windows(M, ctx, r, n):
    cells = as_cells(M, r); n = M.concretize(n)
    if n == 0: raise Panic('window size must be non-zero')
    return Iter(iter([Slice(cells, i, i + n) for i in range(0, len(cells) - n + 1)]), 'windows')

@model(SL + 'to_vec', SL + 'to_owned', SL + 'into_vec')
def slice_to_vec(M, ctx, r):
    v = r
    if isinstance(v, BoxV): v = v.cell.v
    if isinstance(v, Tup): return VecV(list(v))
    if ctx.method == 'into_vec': return VecV([c.v for c in as_cells(M, r)])
    return VecV([deep_copy(c.v) for c in as_cells(M, r)])

@model('std::boxed::box_assume_init_into_vec_unsafe')
def box_into_vec(M, ctx, b):
    v = b.cell.v if isinstance(b, BoxV) else b
    # Box<MaybeUninit<[T; N]>> written through (*ptr).value.value.0 : MaybeUninit{uninit, value: ManuallyDrop{MaybeDangling(arr)}}
    if isinstance(v, Tup) and len(v) == 2 and v[0] is None and isinstance(v[1], Tup) and len(v[1]) == 1 and isinstance(v[1][0], Tup) and len(v[1][0]) == 1:
        v = v[1][0][0]
    if isinstance(v, Tup): return VecV(list(v))
    raise EncoderGap('box_assume_init_into_vec_unsafe of ' + type(v).__name__)

@model('std::boxed::Box::new_uninit')
def box_new_uninit(M, ctx):
    return BoxV(Cell(None), 'Box')

@model('std::mem::MaybeUninit::write', 'std::boxed::Box::write')
def maybeuninit_write(M, ctx, r, v):
    if isinstance(r, BoxV):
        r.cell.v = v; return r
    M.store(r.cell, r.path, v)
    return r

@model('std::vec::from_elem')
def vec_from_elem(M, ctx, x, n):
    n = M.concretize(n)
    return VecV([deep_copy(x) for _ in range(n)])

@model(SL + 'join', SL + 'concat')
def slice_join(M, ctx, r, sep=None):
    cells = as_cells(M, r)
    out = []
    sepb = None
    if sep is not None:
        sv = M.rdd(sep) if isinstance(sep, (Ref, BoxV)) else sep
        sepb = as_str(M, sv).bytes() if isinstance(sv, (Str, StringV)) else None
    first = True
    is_str = None
    for c in cells:
        item = M.rdd(c.v) if isinstance(c.v, (Ref, BoxV)) else c.v
        if isinstance(item, (Str, StringV)):
            is_str = True
            if not first and sepb: out.extend(sepb)
            out.extend(as_str(M, item).bytes())
        elif isinstance(item, (VecV, Slice)):
            is_str = False
            if not first and sep is not None:
                out.extend(c2.v for c2 in as_cells(M, sep)) if not isinstance(sep, (int,)) else out.append(sep)
            out.extend(x.v for x in as_cells(M, item))
        else:
            raise EncoderGap('join of ' + type(item).__name__)
        first = False
    if is_str is False: return VecV(out)
    return StringV(out)

@model(SL + 'sort', SL + 'sort_unstable')
def slice_sort(M, ctx, r):
    cells = as_cells(M, r)
    vals = [c.v for c in cells]
    keys = []
    for v in vals:
        vv = M.rdd(v) if isinstance(v, (Ref, BoxV)) else v
        if isinstance(vv, (Str, StringV)):
            bs = as_str(M, vv).bytes()
            pre = []
            for b in bs:
                if not isinstance(b, int): break
                pre.append(b)
            # strings with a symbolic tail sort by their concrete prefix as long as that decides the order
            keys.append((bytes(pre), len(pre) < len(bs)))
        elif isinstance(vv, int): keys.append(vv)
        else: raise EncoderGap('sort of ' + type(vv).__name__)
    if keys and isinstance(keys[0], tuple):
        for i in range(len(keys)):
            for j in range(i + 1, len(keys)):
                a, b = keys[i], keys[j]
                if (a[1] or b[1]) and (a[0].startswith(b[0]) or b[0].startswith(a[0])):
                    raise EncoderGap('sort of strings whose order depends on symbolic bytes')
        keys = [k[0] for k in keys]
    order = sorted(range(len(vals)), key=lambda i: keys[i])
    for c, i in zip(cells, order): c.v = vals[i]
    return unit()

@model(SL + 'reverse')
def slice_reverse(M, ctx, r):
    cells = as_cells(M, r)
    vals = [c.v for c in cells][::-1]
    for c, v in zip(cells, vals): c.v = v
    return unit()

@model(SL + 'swap')
def slice_swap(M, ctx, r, a, b):
    cells = as_cells(M, r)
    a = M.concretize(a, range(len(cells) + 1)); b = M.concretize(b, range(len(cells) + 1))
    if a >= len(cells) or b >= len(cells): raise Panic('index out of bounds')
    cells[a].v, cells[b].v = cells[b].v, cells[a].v
    return unit()

@model(SL + 'copy_from_slice', SL + 'clone_from_slice')
def slice_copy_from(M, ctx, r, s):
    a, b = as_cells(M, r), as_cells(M, s)
    if len(a) != len(b): raise Panic('source slice length does not match destination slice length')
    for x, y in zip(a, b): x.v = deep_copy(y.v)
    return unit()

@model(SL + 'is_ascii')
def slice_is_ascii(M, ctx, r):
    return M.and_all((c.v < 128) if isinstance(c.v, int) else z3.ULT(c.v, 128) for c in as_cells(M, r))

# ------------------------------------------------------------------------------------------ HashMap / HashSet
HM = r'std::collections::(Hash|BTree)(Map|Set)::'

def keyrepr(M, k):
    """-> (python key or None if symbolic, Str/value)"""
    v = k
    while isinstance(v, (Ref, BoxV)):
        v = M.rd(v)
    if isinstance(v, StringV): v = v.view()
    if isinstance(v, Str):
        p = v.py()
        return p, v
    if isinstance(v, (int, bool)): return v, v
    if isinstance(v, Adt) and all(isinstance(x, (int, bool)) for x in v.fields) and isinstance(v.variant, int):
        return (v.name, v.variant, tuple(v.fields)), v
    if isinstance(v, Tup) and all(isinstance(x, (int, bool)) for x in v): return tuple(v), v
    if is_sym(v): return None, v
    raise EncoderGap('map key of type ' + type(v).__name__)

def key_value(M, pk):
    """python key -> owned key value"""
    if isinstance(pk, str): return mkstring(pk)
    if isinstance(pk, tuple) and len(pk) == 3 and isinstance(pk[0], str): return Adt(pk[0], pk[1], list(pk[2]))
    if isinstance(pk, tuple): return Tup(pk)
    return pk

def hm_lookup(M, h, k):
    """slot whose key equals k and which is live on this path (branches), or None"""
    pk, kv = keyrepr(M, k)
    if pk is not None:
        s = h.find(pk)
        if s is None:
            # a symbolic-key slot could still equal k
            for sl in h.slots:
                if isinstance(sl[0], SymKey) and M.branch(z3.And(sl[0].eq(M, kv), _L(sl[1]))): return sl
            return None
        return s if M.branch(s[1]) else None
    for sl in h.slots:
        eq = M.values_equal(kv, _slot_key_value(sl))
        if M.branch(M.and_all([eq, sl[1]])): return sl
    return None

class SymKey:
    """a key with symbolic bytes stored in a slot"""
    def __init__(self, v): self.v = v
    def eq(self, M, other):
        r = M.values_equal(self.v, other)
        return r if is_sym(r) else z3.BoolVal(r)
    def __eq__(self, o): return self is o
    def __hash__(self): return id(self)
    def __repr__(self): return f'SymKey({self.v!r})'

def _slot_key_value(sl):
    k = sl[0]
    if isinstance(k, SymKey): return k.v
    if isinstance(k, str): return mkstr(k)
    return key_value(None, k)

def _L(x):
    return x if is_sym(x) else z3.BoolVal(x)

def as_map(M, r):
    v = M.rdd(r)
    if not isinstance(v, HMap): raise EncoderGap(f'expected HashMap/HashSet, got {type(v).__name__} {v!r}')
    return v

@pattern(HM + r'(new|with_capacity|default)')
def hm_new(M, ctx, *a):
    return HMap('Set::' in ctx.key)

@pattern(HM + r'(get|get_mut)')
def hm_get(M, ctx, r, k):
    h = as_map(M, r)
    s = hm_lookup(M, h, k)
    if s is None: return NONE()
    if h.is_set: return some(Ref(Cell(_owned_key(s))))
    return some(Ref(s[2]))

def _owned_key(s):
    k = s[0]
    if isinstance(k, SymKey):
        v = k.v
        return StringV(v.bytes()) if isinstance(v, Str) else v
    return key_value(None, k)

@pattern(HM + r'get_key_value')
def hm_get_key_value(M, ctx, r, k):
    h = as_map(M, r)
    s = hm_lookup(M, h, k)
    if s is None: return NONE()
    return some(Tup([Ref(Cell(_owned_key(s))), Ref(s[2])]))

@pattern(HM + r'(contains_key|contains)')
def hm_contains(M, ctx, r, k):
    h = as_map(M, r)
    pk, kv = keyrepr(M, k)
    if pk is not None and not any(isinstance(sl[0], SymKey) for sl in h.slots):
        s = h.find(pk)
        return False if s is None else s[1]
    return M.or_all(M.and_all([M.values_equal(kv, _slot_key_value(sl)), sl[1]]) for sl in h.slots)

@pattern(HM + r'insert')
def hm_insert(M, ctx, r, k, *v):
    h = as_map(M, r)
    val = v[0] if v else Tup()
    pk, kv = keyrepr(M, k)
    if pk is None:
        # symbolic key: does it equal an existing live slot?
        for sl in h.slots:
            if M.branch(M.and_all([M.values_equal(kv, _slot_key_value(sl)), sl[1]])):
                old = sl[2].v; sl[2] = Cell(val)
                return (some(old) if v else False)
        # not equal to any live slot; it may equal a dead slot's key - revive by appending a fresh slot
        h.slots.append([SymKey(kv if not isinstance(kv, Str) else Str(kv.bytes())), True, Cell(val)])
        return NONE() if v else True
    s = h.find(pk)
    if s is None:
        for sl in h.slots:
            if isinstance(sl[0], SymKey) and M.branch(z3.And(sl[0].eq(M, kv), _L(sl[1]))):
                old = sl[2].v; sl[2] = Cell(val)
                return some(old) if v else False
        h.slots.append([pk, True, Cell(val)])
        return NONE() if v else True
    was = s[1]
    if isinstance(was, bool):
        s[1] = True
        old = s[2].v
        s[2] = Cell(val)
        if v: return some(old) if was else NONE()
        return not was
    if M.branch(was):
        old = s[2].v; s[2] = Cell(val)
        return some(old) if v else False
    s[1] = True; s[2] = Cell(val)
    return NONE() if v else True

@pattern(HM + r'(remove|take|remove_entry)')
def hm_remove(M, ctx, r, k):
    h = as_map(M, r)
    s = hm_lookup(M, h, k)
    is_map = not h.is_set
    if s is None:
        return NONE() if (is_map or ctx.method == 'take') else False
    s[1] = False
    if ctx.method == 'remove_entry': return some(Tup([_owned_key(s), s[2].v]))
    if ctx.method == 'take': return some(_owned_key(s))
    return some(s[2].v) if is_map else True

@pattern(HM + r'len')
def hm_len(M, ctx, r):
    h = as_map(M, r)
    return live_count(h)

def live_count(h):
    n = 0; terms = []
    for s in h.slots:
        if isinstance(s[1], bool):
            n += 1 if s[1] else 0
        else:
            terms.append(z3.If(s[1], z3.BitVecVal(1, 64), z3.BitVecVal(0, 64)))
    if not terms: return n
    t = terms[0]
    for x in terms[1:]: t = t + x
    return z3.simplify(t + n) if n else t

@pattern(HM + r'is_empty')
def hm_is_empty(M, ctx, r):
    h = as_map(M, r)
    return M.not_(M.or_all(s[1] for s in h.slots))

@pattern(HM + r'clear')
def hm_clear(M, ctx, r):
    h = as_map(M, r)
    h.slots = []
    return unit()

def iter_slots(M, h):
    for s in list(h.slots):
        if M.branch(s[1]):
            yield s

@pattern(HM + r'(iter|iter_mut)')
def hm_iter(M, ctx, r):
    h = as_map(M, r)
    def item(s):
        if h.is_set: return Ref(Cell(_owned_key(s)))
        return Tup([Ref(Cell(_owned_key(s))), Ref(s[2])])
    def gen():
        for s in iter_slots(M, h):
            yield item(s)
    return Iter(gen(), 'hash::Iter', [(s[1], (lambda s=s: item(s))) for s in h.slots])

@pattern(HM + r'(keys|into_keys)')
def hm_keys(M, ctx, r):
    h = as_map(M, r)
    by_val = ctx.method == 'into_keys'
    def gen():
        for s in iter_slots(M, h):
            yield _owned_key(s) if by_val else Ref(Cell(_owned_key(s)))
    return Iter(gen(), 'hash::Keys', [(s[1], (lambda s=s: _owned_key(s) if by_val else Ref(Cell(_owned_key(s))))) for s in h.slots])

@pattern(HM + r'(values|values_mut|into_values)')
def hm_values(M, ctx, r):
    h = as_map(M, r)
    by_val = ctx.method == 'into_values'
    def gen():
        for s in iter_slots(M, h):
            yield s[2].v if by_val else Ref(s[2])
    return Iter(gen(), 'hash::Values', [(s[1], (lambda s=s: s[2].v if by_val else Ref(s[2]))) for s in h.slots])

@pattern(HM + r'drain')
def hm_drain(M, ctx, r):
    h = as_map(M, r)
    slots = h.slots; h.slots = []
    def gen():
        for s in slots:
            if M.branch(s[1]):
                yield _owned_key(s) if h.is_set else Tup([_owned_key(s), s[2].v])
    return Iter(gen(), 'hash::Drain')

@pattern(HM + r'retain')
def hm_retain(M, ctx, r, f):
    h = as_map(M, r)
    for s in list(h.slots):
        if M.branch(s[1]):
            args = [Ref(Cell(_owned_key(s)))] if h.is_set else [Ref(Cell(_owned_key(s))), Ref(s[2])]
            if not M.branch(M.call_value(f, args)): s[1] = False
    return unit()

@pattern(HM + r'is_disjoint')
def hm_is_disjoint(M, ctx, a, b):
    x, y = as_map(M, a), as_map(M, b)
    conds = []
    for s in x.slots:
        t = y.find(s[0]) if not isinstance(s[0], SymKey) else None
        if t is not None:
            conds.append(M.and_all([s[1], t[1]]))
        for u in y.slots:
            if isinstance(u[0], SymKey) or isinstance(s[0], SymKey):
                conds.append(M.and_all([M.values_equal(_slot_key_value(s), _slot_key_value(u)), s[1], u[1]]))
    return M.not_(M.or_all(conds))

@pattern(HM + r'(is_subset|is_superset)')
def hm_is_subset(M, ctx, a, b):
    x, y = as_map(M, a), as_map(M, b)
    if ctx.method == 'is_superset': x, y = y, x
    conds = []
    for s in x.slots:
        t = y.find(s[0])
        inb = t[1] if t is not None else False
        conds.append(M.or_all([M.not_(s[1]), inb]))
    return M.and_all(conds)

@pattern(HM + r'(extend)')
def hm_extend(M, ctx, r, it):
    from .iter_m import to_iter
    h = as_map(M, r)
    for x in to_iter(M, it).gen:
        if h.is_set: hm_insert(M, ctx, r, x)
        else: hm_insert(M, ctx, r, x[0], x[1])
    return unit()

def hm_from_values(M, v, is_set):
    from .iter_m import to_iter
    h = HMap(is_set)
    ref = Ref(Cell(h))
    vv = M.rdd(v) if isinstance(v, (Ref, BoxV)) else v
    items = list(vv) if isinstance(vv, (Tup, list)) else list(to_iter(M, vv).gen)
    class _C: method = 'insert'; key = 'Set::' if is_set else 'Map::'
    for x in items:
        if is_set: hm_insert(M, _C, ref, x)
        else: hm_insert(M, _C, ref, x[0], x[1])
    return h

# entry API
@pattern(HM + r'entry')
def hm_entry(M, ctx, r, k):
    h = as_map(M, r)
    s = hm_lookup(M, h, k)
    return Adt('Entry', 0 if s is not None else 1, [Opaque('entry', (h, s, k, r))])

def _entry_parts(e):
    return e.fields[0].payload

@pattern(r'std::collections::(hash|btree)_map::Entry::(or_insert|or_insert_with|or_default|or_insert_with_key)')
def entry_or_insert(M, ctx, e, *a):
    h, s, k, r = _entry_parts(e)
    if s is not None: return Ref(s[2])
    if ctx.method == 'or_insert': val = a[0]
    elif ctx.method == 'or_insert_with': val = M.call_value(a[0], [])
    elif ctx.method == 'or_insert_with_key': val = M.call_value(a[0], [Ref(Cell(k))])
    else:
        val = default_of(M, _generic_arg(ctx.callee, 'Entry', 1))
    class _C: method = 'insert'; key = 'Map::'
    hm_insert(M, _C, r, k, val)
    s2 = hm_lookup(M, h, k)
    return Ref(s2[2])

@pattern(r'std::collections::(hash|btree)_map::Entry::and_modify')
def entry_and_modify(M, ctx, e, f):
    h, s, k, r = _entry_parts(e)
    if s is not None: M.call_value(f, [Ref(s[2])])
    return e
