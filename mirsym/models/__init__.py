"""Environment models: everything outside the crate (std, tokio, tracing, chrono, argon2 ...).

Each model is a python function (M, ctx, *args).  They are part of every claim; evidence files list the ones a
check actually used (Machine.models_used).
"""
import re
from ..mir import strip_generics, strip_all_generics, find_top, split_top
from ..values import *

class Ctx:
    __slots__ = ('callee', 'self_ty', 'trait', 'method', 'targs', 'key')
    def __init__(self, callee, key, self_ty=None, trait=None, method=None, targs=None):
        self.callee, self.key, self.self_ty, self.trait, self.method, self.targs = callee, key, self_ty, trait, method, targs

MODELS = {}        # normalized key -> python function
PATTERNS = []      # (compiled regex on normalized key, function)
OVERRIDES = {}     # crate functions replaced by environment models: suffix of crate path -> function

def model(*keys):
    def deco(f):
        for k in keys:
            MODELS[k] = f
        return f
    return deco

def pattern(rx):
    def deco(f):
        PATTERNS.append((re.compile(rx), f))
        return f
    return deco

def override(*names):
    def deco(f):
        for n in names:
            OVERRIDES[n] = f
        return f
    return deco

def _norm_root(p):
    for a in ('core::', 'alloc::'):
        if p.startswith(a):
            return 'std::' + p[len(a):]
    return p

def _last_turbofish(callee):
    if callee.endswith('>'):
        d = 0
        for i in range(len(callee) - 1, -1, -1):
            c = callee[i]
            if c == '>' and callee[i - 1] not in '-=': d += 1
            elif c == '<':
                d -= 1
                if d == 0:
                    if callee[i - 2:i] == '::':
                        return callee[i + 1:-1]
                    return None
    return None

def normalize(callee):
    """-> (key, self_ty, trait, method, targs)"""
    targs = _last_turbofish(callee)
    if callee.startswith('<'):
        j = find_top(callee, 1, '>')
        inner = callee[1:j]
        rest = strip_generics(callee[j + 1:])
        meth = rest[2:] if rest.startswith('::') else rest
        d = 0; k = -1
        for i, ch in enumerate(inner):
            if ch in '<([{': d += 1
            elif ch in ')]}' or (ch == '>' and inner[i - 1] not in '-='): d -= 1
            elif d == 0 and inner.startswith(' as ', i): k = i; break
        if k >= 0:
            self_ty, tr = inner[:k], inner[k + 4:]
            trn = _norm_root(strip_all_generics(tr))
            return trn + '::' + meth, self_ty, trn, meth, targs
        t = _norm_root(strip_all_generics(inner))
        return '<' + t + '>::' + meth, inner, None, meth, targs
    c2 = _norm_root(strip_generics(callee))
    # `Type<...>` generic lists without turbofish can remain in <impl ...> blocks; strip those too
    c2 = re.sub(r'<impl<[^>]*>', '<impl', c2)
    k = c2.find('<impl [')
    if k >= 0:
        j = find_top(c2, k + 7, ']')
        c2 = c2[:k] + '<impl [T]' + c2[j + 1:]
    meth = c2.rsplit('::', 1)[-1]
    return c2, None, None, meth, targs

def lookup_override(callee):
    if not OVERRIDES:
        return None
    c2 = strip_generics(callee)
    for suffix, f in OVERRIDES.items():
        if c2.endswith(suffix):
            return ('model', f, 'override:' + suffix, Ctx(callee, suffix))
    return None

def lookup(callee):
    key, self_ty, tr, meth, targs = normalize(callee)
    f = MODELS.get(key)
    if f is None:
        for rx, g in PATTERNS:
            if rx.fullmatch(key):
                f = g; break
    if f is None:
        return None
    return ('model', f, key, Ctx(callee, key, self_ty, tr, meth, targs))

def poll_future(M, fut_ref, cx):
    from . import tokio_m
    return tokio_m.poll_future(M, fut_ref, cx)

from . import core_m, str_m, coll_m, iter_m, fmt_m, tokio_m, misc_m   # noqa: E402,F401
