"""Option / Result / Try / Clone / PartialEq / Default / From / Deref / Box / Arc / atomics / mem."""
import z3
from . import model, pattern, MODELS
from ..values import *
from ..machine import type_head, deref_type
from ..mir import split_top, strip_all_generics

# ------------------------------------------------------------------------------------------ helpers
def opt_is_some(M, o):
    """decide (branching if symbolic) whether an Option value is Some"""
    v = o.variant
    if isinstance(v, int): return v == 1
    return M.branch(v == 1) if not z3.is_bool(v) else M.branch(v)

def opt_some_cond(o):
    """bool | z3 Bool: o is Some (no branching)"""
    v = o.variant
    if isinstance(v, int): return v == 1
    return v if z3.is_bool(v) else (v == 1)

def res_is_ok(M, r):
    v = r.variant
    if isinstance(v, int): return v == 0
    return M.branch(v == 0)

def sub_ref(M, r, *path):
    """reference to a sub-place of what r designates"""
    if isinstance(r, Ref):
        return Ref(r.cell, r.path + tuple(path))
    if isinstance(r, BoxV):
        return Ref(r.cell, tuple(path))
    raise EncoderGap('sub_ref of ' + type(r).__name__)

def unit(): return Tup()

# ------------------------------------------------------------------------------------------ Option
@model('std::option::Option::is_some')
def opt_is_some_m(M, ctx, o):
    return opt_some_cond(M.rd(o))

@model('std::option::Option::is_none')
def opt_is_none_m(M, ctx, o):
    return M.not_(opt_some_cond(M.rd(o)))

@model('std::option::Option::unwrap', 'std::option::Option::unwrap_unchecked')
def opt_unwrap(M, ctx, o):
    if opt_is_some(M, o): return o.fields[0]
    raise Panic('called `Option::unwrap()` on a `None` value')

@model('std::option::Option::expect')
def opt_expect(M, ctx, o, msg):
    if opt_is_some(M, o): return o.fields[0]
    raise Panic(str(M.rdd(msg)))

@model('std::option::Option::unwrap_or')
def opt_unwrap_or(M, ctx, o, d):
    return o.fields[0] if opt_is_some(M, o) else d

@model('std::option::Option::unwrap_or_default')
def opt_unwrap_or_default(M, ctx, o):
    if opt_is_some(M, o): return o.fields[0]
    inner = _generic_arg(ctx.callee, 'Option')
    return default_of(M, inner)

@model('std::option::Option::unwrap_or_else')
def opt_unwrap_or_else(M, ctx, o, f):
    return o.fields[0] if opt_is_some(M, o) else M.call_value(f, [])

@model('std::option::Option::map')
def opt_map(M, ctx, o, f):
    return some(M.call_value(f, [o.fields[0]])) if opt_is_some(M, o) else NONE()

@model('std::option::Option::map_or')
def opt_map_or(M, ctx, o, d, f):
    return M.call_value(f, [o.fields[0]]) if opt_is_some(M, o) else d

@model('std::option::Option::map_or_else')
def opt_map_or_else(M, ctx, o, d, f):
    return M.call_value(f, [o.fields[0]]) if opt_is_some(M, o) else M.call_value(d, [])

@model('std::option::Option::is_some_and')
def opt_is_some_and(M, ctx, o, f):
    return M.call_value(f, [o.fields[0]]) if opt_is_some(M, o) else False

@model('std::option::Option::and_then')
def opt_and_then(M, ctx, o, f):
    return M.call_value(f, [o.fields[0]]) if opt_is_some(M, o) else NONE()

@model('std::option::Option::or')
def opt_or(M, ctx, o, p):
    return o if opt_is_some(M, o) else p

@model('std::option::Option::or_else')
def opt_or_else(M, ctx, o, f):
    return o if opt_is_some(M, o) else M.call_value(f, [])

@model('std::option::Option::filter')
def opt_filter(M, ctx, o, f):
    if not opt_is_some(M, o): return NONE()
    r = M.call_value(f, [Ref(Cell(o.fields[0]))])
    return o if M.branch(r) else NONE()

@model('std::option::Option::as_ref', 'std::option::Option::as_mut')
def opt_as_ref(M, ctx, o):
    v = M.rd(o)
    if isinstance(v.variant, int):
        return some(sub_ref(M, o, 0)) if v.variant == 1 else NONE()
    # symbolic variant: keep it symbolic, payload reference valid only when Some
    return Adt('Option', v.variant, [sub_ref(M, o, 0)])

@model('std::option::Option::as_deref', 'std::option::Option::as_deref_mut')
def opt_as_deref(M, ctx, o):
    v = M.rd(o)
    if not opt_is_some(M, v): return NONE()
    return some(deref_value(M, sub_ref(M, o, 0)))

@model('std::option::Option::take')
def opt_take(M, ctx, o):
    v = M.rd(o)
    M.store(o.cell, o.path, NONE())
    return v

@model('std::option::Option::replace')
def opt_replace(M, ctx, o, nv):
    v = M.rd(o)
    M.store(o.cell, o.path, some(nv))
    return v

@model('std::option::Option::insert', 'std::option::Option::get_or_insert')
def opt_insert(M, ctx, o, nv):
    if ctx.method == 'get_or_insert' and opt_is_some(M, M.rd(o)):
        return sub_ref(M, o, 0)
    M.store(o.cell, o.path, some(nv))
    return sub_ref(M, o, 0)

@model('std::option::Option::get_or_insert_with')
def opt_get_or_insert_with(M, ctx, o, f):
    if not opt_is_some(M, M.rd(o)):
        M.store(o.cell, o.path, some(M.call_value(f, [])))
    return sub_ref(M, o, 0)

@model('std::option::Option::copied', 'std::option::Option::cloned')
def opt_copied(M, ctx, o):
    if not opt_is_some(M, o): return NONE()
    return some(deep_copy(M.rd(o.fields[0])))

@model('std::option::Option::ok_or')
def opt_ok_or(M, ctx, o, e):
    return ok(o.fields[0]) if opt_is_some(M, o) else err(e)

@model('std::option::Option::ok_or_else')
def opt_ok_or_else(M, ctx, o, f):
    return ok(o.fields[0]) if opt_is_some(M, o) else err(M.call_value(f, []))

@model('std::option::Option::transpose')
def opt_transpose(M, ctx, o):
    if not opt_is_some(M, o): return ok(NONE())
    r = o.fields[0]
    return ok(some(r.fields[0])) if res_is_ok(M, r) else err(r.fields[0])

@model('std::option::Option::zip')
def opt_zip(M, ctx, a, b):
    if opt_is_some(M, a) and opt_is_some(M, b): return some(Tup([a.fields[0], b.fields[0]]))
    return NONE()

@model('std::option::Option::iter', 'std::option::Option::iter_mut')
def opt_iter(M, ctx, o):
    def gen():
        if opt_is_some(M, M.rd(o)): yield sub_ref(M, o, 0)
    return Iter(gen(), 'option')

# ------------------------------------------------------------------------------------------ Result
@model('std::result::Result::is_ok')
def res_is_ok_m(M, ctx, r):
    v = M.rd(r).variant
    return (v == 0)

@model('std::result::Result::is_err')
def res_is_err_m(M, ctx, r):
    v = M.rd(r).variant
    return (v == 1) if isinstance(v, int) else (v != 0)

@model('std::result::Result::unwrap', 'std::result::Result::unwrap_unchecked')
def res_unwrap(M, ctx, r):
    if res_is_ok(M, r): return r.fields[0]
    raise Panic('called `Result::unwrap()` on an `Err` value')

@model('std::result::Result::expect')
def res_expect(M, ctx, r, msg):
    if res_is_ok(M, r): return r.fields[0]
    raise Panic(str(M.rdd(msg)))

@model('std::result::Result::unwrap_err', 'std::result::Result::expect_err')
def res_unwrap_err(M, ctx, r, *a):
    if not res_is_ok(M, r): return r.fields[0]
    raise Panic('called `Result::unwrap_err()` on an `Ok` value')

@model('std::result::Result::unwrap_or')
def res_unwrap_or(M, ctx, r, d):
    return r.fields[0] if res_is_ok(M, r) else d

@model('std::result::Result::unwrap_or_default')
def res_unwrap_or_default(M, ctx, r):
    if res_is_ok(M, r): return r.fields[0]
    return default_of(M, _generic_arg(ctx.callee, 'Result'))

@model('std::result::Result::unwrap_or_else')
def res_unwrap_or_else(M, ctx, r, f):
    return r.fields[0] if res_is_ok(M, r) else M.call_value(f, [r.fields[0]])

@model('std::result::Result::map')
def res_map(M, ctx, r, f):
    return ok(M.call_value(f, [r.fields[0]])) if res_is_ok(M, r) else r

@model('std::result::Result::map_err')
def res_map_err(M, ctx, r, f):
    return r if res_is_ok(M, r) else err(M.call_value(f, [r.fields[0]]))

@model('std::result::Result::and_then')
def res_and_then(M, ctx, r, f):
    return M.call_value(f, [r.fields[0]]) if res_is_ok(M, r) else r

@model('std::result::Result::or_else')
def res_or_else(M, ctx, r, f):
    return r if res_is_ok(M, r) else M.call_value(f, [r.fields[0]])

@model('std::result::Result::ok')
def res_ok(M, ctx, r):
    return some(r.fields[0]) if res_is_ok(M, r) else NONE()

@model('std::result::Result::err')
def res_err(M, ctx, r):
    return NONE() if res_is_ok(M, r) else some(r.fields[0])

@model('std::result::Result::as_ref', 'std::result::Result::as_mut')
def res_as_ref(M, ctx, r):
    v = M.rd(r)
    return Adt('Result', v.variant, [sub_ref(M, r, 0)])

# ------------------------------------------------------------------------------------------ Try / FromResidual
@model('std::ops::Try::branch')
def try_branch(M, ctx, v):
    if v.name == 'Result':
        return Adt('ControlFlow', 0, [v.fields[0]]) if res_is_ok(M, v) else Adt('ControlFlow', 1, [Adt('Result', 1, [v.fields[0]])])
    if v.name == 'Option':
        return Adt('ControlFlow', 0, [v.fields[0]]) if opt_is_some(M, v) else Adt('ControlFlow', 1, [NONE()])
    if v.name == 'ControlFlow':
        return v
    if v.name == 'Poll':
        raise EncoderGap('Try::branch on Poll')
    raise EncoderGap('Try::branch on ' + v.name)

@model('std::ops::FromResidual::from_residual')
def from_residual(M, ctx, r):
    st = ctx.self_ty or ''
    h = type_head(st)
    if h == 'Result':
        e = r.fields[0]
        # error conversion E -> F through From
        args = split_top(st[st.index('<') + 1:-1])
        fty = args[1] if len(args) > 1 else ''
        e = convert_from(M, e, fty)
        return err(e)
    if h == 'Option':
        return NONE()
    if h == 'ControlFlow':
        return r
    raise EncoderGap('from_residual for ' + st)

def convert_from(M, v, target_ty):
    h = type_head(target_ty)
    if h == 'Box':
        if isinstance(v, BoxV): return v
        return BoxV(Cell(v), 'Box')
    if h == 'String':
        vv = M.rdd(v)
        if isinstance(vv, Str): return StringV(vv.bytes())
        if isinstance(vv, StringV): return vv
    return v

# ------------------------------------------------------------------------------------------ Clone / Copy / eq / default
@model('std::clone::Clone::clone')
def clone(M, ctx, r):
    v = M.rd(r)
    if isinstance(v, Ref): return v           # Clone for &T
    if isinstance(v, Adt):
        hook = CLONE_HOOKS.get(v.name)
        if hook: return hook(M, v)
    if hasattr(v, 'clone_model'): return v.clone_model(M)
    return deep_copy(v)

CLONE_HOOKS = {}

@model('std::clone::Clone::clone_from')
def clone_from(M, ctx, dst, src):
    M.store(dst.cell, dst.path, deep_copy(M.rd(src)))
    return unit()

@model('std::borrow::ToOwned::to_owned')
def to_owned(M, ctx, r):
    v = M.rd(r) if not isinstance(r, (Str, Slice)) else r
    if isinstance(v, Str): return StringV(v.bytes())
    if isinstance(v, Slice): return VecV([deep_copy(c.v) for c in v.cells()])
    return deep_copy(v)

@model('std::cmp::PartialEq::eq')
def partial_eq(M, ctx, a, b):
    return M.values_equal(a, b)

@model('std::cmp::PartialEq::ne')
def partial_ne(M, ctx, a, b):
    return M.not_(M.values_equal(a, b))

def _as_int_pair(M, a, b):
    return M.rdd(a), M.rdd(b)

@model('std::cmp::PartialOrd::lt', 'std::cmp::PartialOrd::le', 'std::cmp::PartialOrd::gt', 'std::cmp::PartialOrd::ge')
def partial_ord(M, ctx, a, b):
    x, y = _as_int_pair(M, a, b)
    ty = type_head(ctx.self_ty or 'usize')
    op = {'lt': 'Lt', 'le': 'Le', 'gt': 'Gt', 'ge': 'Ge'}[ctx.method]
    if isinstance(x, (int, bool)) or is_sym(x):
        return M.binop_t(op, x, y, ty)
    raise EncoderGap('PartialOrd on ' + type(x).__name__)

@model('std::cmp::Ord::cmp', 'std::cmp::PartialOrd::partial_cmp')
def ord_cmp(M, ctx, a, b):
    x, y = _as_int_pair(M, a, b)
    ty = type_head(ctx.self_ty or 'usize')
    if isinstance(x, StringV): x = x.view()
    if isinstance(y, StringV): y = y.view()
    if isinstance(x, Str) and isinstance(y, Str):
        r = cmp_bytes(M, x.bytes(), y.bytes())
    else:
        r = M.binop_t('Cmp', x, y, ty)
    return some(r) if ctx.method == 'partial_cmp' else r

def cmp_bytes(M, a, b):
    for x, y in zip(a, b):
        if isinstance(x, int) and isinstance(y, int):
            if x < y: return Adt('Ordering', 0, [])
            if x > y: return Adt('Ordering', 2, [])
        else:
            X = x if is_sym(x) else z3.BitVecVal(x, 8); Y = y if is_sym(y) else z3.BitVecVal(y, 8)
            if M.branch(z3.ULT(X, Y)): return Adt('Ordering', 0, [])
            if M.branch(z3.UGT(X, Y)): return Adt('Ordering', 2, [])
    if len(a) < len(b): return Adt('Ordering', 0, [])
    if len(a) > len(b): return Adt('Ordering', 2, [])
    return Adt('Ordering', 1, [])

@model('std::cmp::Ord::max', 'std::cmp::Ord::min', 'std::cmp::max', 'std::cmp::min')
def ord_minmax(M, ctx, a, b):
    ty = type_head(ctx.self_ty or (ctx.targs or 'usize'))
    lt = M.binop_t('Lt', a, b, ty)
    amin = M.branch(lt)
    if ctx.method == 'min': return a if amin else b
    return b if amin else a

DEFAULTS = {}
def default_of(M, ty):
    ty = ty.strip()
    h = type_head(ty)
    if h in ('HashMap', 'BTreeMap'): return HMap(False)
    if h in ('HashSet', 'BTreeSet'): return HMap(True)
    if h == 'String': return StringV()
    if h in ('Vec', 'VecDeque'): return VecV()
    if h == 'Option': return NONE()
    if h == 'bool': return False
    if h in ('usize', 'u8', 'u16', 'u32', 'u64', 'u128', 'isize', 'i8', 'i16', 'i32', 'i64', 'i128', 'char'): return 0
    if h == '&str' or h == 'str': return Str([])
    if ty == '()': return Tup()
    if h in DEFAULTS: return DEFAULTS[h](M)
    r = M.prog.impl_index.get((h, 'Default', 'default'))
    if r: return M.run_fn(r[0], [])
    raise EncoderGap('Default for ' + ty)

@model('std::default::Default::default')
def default_m(M, ctx):
    return default_of(M, ctx.self_ty)

def _generic_arg(callee, head, idx=0):
    """first generic argument of `...::Head::<A, B>::method`"""
    k = callee.find(head + '::<')
    if k < 0: return ''
    s = callee[k + len(head) + 3:]
    from ..mir import find_top
    j = find_top(s, 0, '>')
    parts = split_top(s[:j])
    return parts[idx] if idx < len(parts) else ''

# ------------------------------------------------------------------------------------------ From / Into / AsRef / Borrow
@model('std::convert::From::from')
def from_m(M, ctx, v):
    return convert_into(M, v, ctx.self_ty or '', ctx)

@model('std::convert::Into::into')
def into_m(M, ctx, v):
    tr = ctx.callee
    # <A as Into<B>>::into : target is B
    k = tr.find('Into<')
    target = ''
    if k >= 0:
        from ..mir import find_top
        j = find_top(tr, k + 5, '>')
        target = tr[k + 5:j]
    return convert_into(M, v, target, ctx)

def convert_into(M, v, target, ctx):
    h = type_head(target)
    vv = v
    if h == 'String':
        vv = M.rdd(v)
        if isinstance(vv, Str): return StringV(vv.bytes())
        if isinstance(vv, StringV): return StringV(vv.data)
        if isinstance(vv, int): return StringV(list(chr(vv).encode()))
    if h == 'Box':
        if isinstance(v, BoxV): return v
        vv = M.rdd(v) if isinstance(v, Ref) else v
        if isinstance(vv, Str): vv = StringV(vv.bytes())
        return BoxV(Cell(vv), 'Box')
    if h in ('HashSet', 'BTreeSet', 'HashMap', 'BTreeMap'):
        from .coll_m import hm_from_values
        return hm_from_values(M, v, is_set=h.endswith('Set'))
    if h == 'Vec':
        vv = M.rdd(v) if isinstance(v, Ref) else v
        if isinstance(vv, (Tup, list)): return VecV(list(vv))
        if isinstance(vv, Slice): return VecV([deep_copy(c.v) for c in vv.cells()])
        if isinstance(vv, Str): return VecV(vv.bytes())
        if isinstance(vv, StringV): return VecV(vv.data)
    if h == 'FlagSet':
        from .misc_m import flagset_of
        return flagset_of(M, v)
    if h == 'Arc' or h == 'Rc':
        return BoxV(Cell(v), h)
    if h in ('u64', 'usize', 'u32', 'u16', 'u128', 'i64', 'i32', 'isize', 'i128'):
        src = type_head(ctx.callee.split(' as ')[0][1:]) if ctx.callee.startswith('<') else None
        return M.int_cast(v, None, h)
    if h == 'Option':
        return some(v)
    if h in ('PathBuf', 'OsString', 'Cow'):
        return v
    # identity conversions (T: From<T>) and error types
    return v

@model('std::convert::AsRef::as_ref', 'std::borrow::Borrow::borrow', 'std::convert::AsMut::as_mut', 'std::borrow::BorrowMut::borrow_mut')
def as_ref_m(M, ctx, r):
    return deref_value(M, r, allow_same=True)

@model('std::convert::TryFrom::try_from', 'std::convert::TryInto::try_into')
def try_from_m(M, ctx, v):
    target = ctx.self_ty if ctx.method == 'try_from' else ''
    if ctx.method == 'try_into':
        k = ctx.callee.find('TryInto<')
        if k >= 0:
            from ..mir import find_top
            j = find_top(ctx.callee, k + 8, '>'); target = ctx.callee[k + 8:j]
    h = type_head(target)
    from ..machine import INT_W, SIGNED
    if h in INT_W and (isinstance(v, int) or is_sym(v)):
        w = INT_W[h]
        if isinstance(v, int):
            lo, hi = (-(1 << (w - 1)), (1 << (w - 1)) - 1) if h in SIGNED else (0, (1 << w) - 1)
            return ok(v) if lo <= v <= hi else err(Opaque('TryFromIntError'))
        sw = v.size()
        if sw <= w and h not in SIGNED: return ok(z3.ZeroExt(w - sw, v) if w > sw else v)
        fits = z3.ULT(v, z3.BitVecVal(1 << w, sw)) if w < sw else True
        if M.branch(fits): return ok(z3.Extract(w - 1, 0, v) if w < sw else v)
        return err(Opaque('TryFromIntError'))
    raise EncoderGap('TryFrom to ' + target)

# ------------------------------------------------------------------------------------------ Deref
def deref_value(M, r, allow_same=False):
    """what `&*x` gives for smart pointers / owned buffers: String->&str, Vec->&[T], Box/Arc->&T, guards->&T"""
    if isinstance(r, (Str, Slice)):
        return r
    v = M.rd(r)
    if isinstance(v, StringV): return v.view()
    if isinstance(v, VecV): return Slice(v.items)
    if isinstance(v, BoxV): return Ref(v.cell)
    if isinstance(v, Ref): return v
    if isinstance(v, (Str, Slice)): return v
    if hasattr(v, 'deref_model'): return v.deref_model(M)
    if isinstance(v, Adt):
        if v.name in ('Pin', 'ManuallyDrop', 'Reverse', 'Wrapping'):
            return sub_ref(M, r, 0) if not isinstance(v.fields[0], (Ref, BoxV)) else v.fields[0]
        if v.name in ('RwLockReadGuard', 'RwLockWriteGuard', 'MutexGuard', 'Guard'):
            return v.fields[0]
        if v.name == 'Cow':
            inner = v.fields[0]
            if isinstance(inner, StringV): return inner.view()
            return inner
    if isinstance(v, Tup) and allow_same:
        return Slice([Cell(x) for x in v])
    if allow_same:
        return r
    raise EncoderGap(f'Deref of {type(v).__name__} {v!r}')

@model('std::ops::Deref::deref', 'std::ops::DerefMut::deref_mut')
def deref_m(M, ctx, r):
    return deref_value(M, r)

# ------------------------------------------------------------------------------------------ Box / Arc / Rc / Pin / mem
@model('std::boxed::Box::new', 'std::boxed::Box::pin')
def box_new(M, ctx, v):
    return BoxV(Cell(v), 'Box')

@model('std::sync::Arc::new', 'std::rc::Rc::new')
def arc_new(M, ctx, v):
    return BoxV(Cell(v), 'Arc')

@model('std::sync::Arc::clone', 'std::rc::Rc::clone')
def arc_clone(M, ctx, r):
    return M.rd(r)

@model('std::pin::Pin::new_unchecked', 'std::pin::Pin::new')
def pin_new(M, ctx, r):
    return Adt('Pin', 0, [r])

@model('std::pin::Pin::get_mut', 'std::pin::Pin::get_unchecked_mut', 'std::pin::Pin::get_ref', 'std::pin::Pin::into_inner',
       'std::pin::Pin::into_inner_unchecked')
def pin_get_mut(M, ctx, p):
    return p.fields[0] if isinstance(p, Adt) and p.name == 'Pin' else p

@model('std::pin::Pin::as_mut', 'std::pin::Pin::as_ref')
def pin_as_mut(M, ctx, r):
    p = M.rd(r)
    inner = p.fields[0]
    if isinstance(inner, BoxV): inner = Ref(inner.cell)
    return Adt('Pin', 0, [inner])

@model('std::pin::Pin::set')
def pin_set(M, ctx, r, v):
    p = M.rd(r); inner = p.fields[0]
    M.store(inner.cell, inner.path, v)
    return unit()

@model('std::mem::replace')
def mem_replace(M, ctx, r, v):
    old = M.rd(r); M.store(r.cell, r.path, v); return old

@model('std::mem::take')
def mem_take(M, ctx, r):
    old = M.rd(r)
    if isinstance(old, StringV): new = StringV()
    elif isinstance(old, VecV): new = VecV()
    elif isinstance(old, HMap): new = HMap(old.is_set)
    elif isinstance(old, Adt) and old.name == 'Option': new = NONE()
    elif isinstance(old, bool): new = False
    elif isinstance(old, int): new = 0
    else: raise EncoderGap('mem::take of ' + type(old).__name__)
    M.store(r.cell, r.path, new); return old

@model('std::mem::swap')
def mem_swap(M, ctx, a, b):
    x, y = M.rd(a), M.rd(b)
    M.store(a.cell, a.path, y); M.store(b.cell, b.path, x)
    return unit()

@model('std::mem::drop', 'std::mem::forget')
def mem_drop(M, ctx, v):
    if ctx.method == 'drop': M.drop_value(v)
    return unit()

@model('std::hint::must_use', 'std::convert::identity', 'std::hint::black_box')
def identity(M, ctx, v):
    return v

@model('std::hint::unreachable_unchecked', 'std::intrinsics::unreachable')
def unreachable(M, ctx):
    raise EncoderGap('unreachable_unchecked reached')

# ------------------------------------------------------------------------------------------ atomics
@pattern(r'std::sync::atomic::Atomic\w*::new')
def atomic_new(M, ctx, v):
    return Adt('Atomic', 0, [v])

@pattern(r'std::sync::atomic::Atomic\w*::load')
def atomic_load(M, ctx, r, order):
    return M.rdd(r).fields[0]

@pattern(r'std::sync::atomic::Atomic\w*::store')
def atomic_store(M, ctx, r, v, order):
    M.rdd(r).fields[0] = v
    return unit()

@pattern(r'std::sync::atomic::Atomic\w*::(fetch_add|fetch_sub|swap|fetch_or|fetch_and)')
def atomic_rmw(M, ctx, r, v, order):
    a = M.rdd(r)
    old = a.fields[0]
    ty = _atomic_ty(ctx.callee)
    meth = ctx.method
    if meth == 'fetch_add': a.fields[0] = M.binop_t('Add', old, v, ty)
    elif meth == 'fetch_sub': a.fields[0] = M.binop_t('Sub', old, v, ty)
    elif meth == 'swap': a.fields[0] = v
    elif meth == 'fetch_or': a.fields[0] = M.binop_t('BitOr', old, v, ty)
    elif meth == 'fetch_and': a.fields[0] = M.binop_t('BitAnd', old, v, ty)
    return old

def _atomic_ty(callee):
    import re
    m = re.search(r'Atomic::<(\w+)>', callee) or re.search(r'Atomic(\w+)::', callee)
    if m:
        t = m.group(1).lower()
        return {'usize': 'usize', 'isize': 'isize', 'i32': 'i32', 'u32': 'u32', 'u64': 'u64', 'i64': 'i64', 'u8': 'u8', 'bool': 'bool'}.get(t, 'usize')
    return 'usize'

@pattern(r'std::sync::atomic::Atomic\w*::compare_exchange(_weak)?')
def atomic_cas(M, ctx, r, cur, new, o1, o2):
    a = M.rdd(r)
    old = a.fields[0]
    eq = M.binop_t('Eq', old, cur, _atomic_ty(ctx.callee))
    if M.branch(eq):
        a.fields[0] = new
        return ok(old)
    return err(old)

# ------------------------------------------------------------------------------------------ integer helpers
_INT_TYS = 'u8|u16|u32|u64|usize|u128|i8|i16|i32|i64|isize|i128'

@pattern(r'std::num::<impl (%s)>::(checked_add|checked_sub|checked_mul)' % _INT_TYS)
def int_checked(M, ctx, a, b):
    import re
    ty = re.search(r'<impl (\w+)>', ctx.callee).group(1)
    op = {'checked_add': 'AddWithOverflow', 'checked_sub': 'SubWithOverflow', 'checked_mul': 'MulWithOverflow'}[ctx.method]
    r = M.binop_t(op, a, b, ty)
    if M.branch(r[1]): return NONE()
    return some(r[0])

@pattern(r'std::num::<impl (%s)>::(saturating_add|saturating_sub)' % _INT_TYS)
def int_saturating(M, ctx, a, b):
    import re
    from ..machine import INT_W, SIGNED
    ty = re.search(r'<impl (\w+)>', ctx.callee).group(1)
    op = {'saturating_add': 'AddWithOverflow', 'saturating_sub': 'SubWithOverflow'}[ctx.method]
    r = M.binop_t(op, a, b, ty)
    if M.branch(r[1]):
        if ty in SIGNED: raise EncoderGap('signed saturating op')
        return ((1 << INT_W[ty]) - 1) if ctx.method == 'saturating_add' else 0
    return r[0]

@pattern(r'std::num::<impl (%s)>::(wrapping_add|wrapping_sub|wrapping_mul)' % _INT_TYS)
def int_wrapping(M, ctx, a, b):
    import re
    ty = re.search(r'<impl (\w+)>', ctx.callee).group(1)
    op = {'wrapping_add': 'Add', 'wrapping_sub': 'Sub', 'wrapping_mul': 'Mul'}[ctx.method]
    return M.binop_t(op, a, b, ty)

@pattern(r'std::num::<impl (%s)>::(overflowing_add|overflowing_sub)' % _INT_TYS)
def int_overflowing(M, ctx, a, b):
    import re
    ty = re.search(r'<impl (\w+)>', ctx.callee).group(1)
    op = {'overflowing_add': 'AddWithOverflow', 'overflowing_sub': 'SubWithOverflow'}[ctx.method]
    return M.binop_t(op, a, b, ty)

@pattern(r'std::num::<impl u8>::(is_ascii_\w+|is_ascii)')
def u8_is_ascii(M, ctx, r):
    b = M.rdd(r)
    return byte_class(M, b, ctx.method)

def byte_class(M, b, meth):
    def rng(lo, hi):
        if isinstance(b, int): return lo <= b <= hi
        return z3.And(z3.UGE(b, lo), z3.ULE(b, hi))
    def OR(*xs): return M.or_all(xs)
    if meth == 'is_ascii': return rng(0, 127)
    if meth == 'is_ascii_digit': return rng(48, 57)
    if meth == 'is_ascii_uppercase': return rng(65, 90)
    if meth == 'is_ascii_lowercase': return rng(97, 122)
    if meth == 'is_ascii_alphabetic': return OR(rng(65, 90), rng(97, 122))
    if meth == 'is_ascii_alphanumeric': return OR(rng(48, 57), rng(65, 90), rng(97, 122))
    if meth == 'is_ascii_whitespace': return OR(rng(9, 10), rng(12, 13), rng(32, 32))
    if meth == 'is_ascii_punctuation': return OR(rng(33, 47), rng(58, 64), rng(91, 96), rng(123, 126))
    if meth == 'is_ascii_graphic': return rng(33, 126)
    if meth == 'is_ascii_control': return OR(rng(0, 31), rng(127, 127))
    if meth == 'is_ascii_hexdigit': return OR(rng(48, 57), rng(65, 70), rng(97, 102))
    raise EncoderGap('u8::' + meth)

@pattern(r'std::num::<impl u8>::(to_ascii_uppercase|to_ascii_lowercase)')
def u8_to_ascii_case(M, ctx, r):
    b = M.rdd(r)
    up = ctx.method == 'to_ascii_uppercase'
    if isinstance(b, int):
        return (b - 32 if 97 <= b <= 122 else b) if up else (b + 32 if 65 <= b <= 90 else b)
    if up: return z3.If(z3.And(z3.UGE(b, 97), z3.ULE(b, 122)), b - 32, b)
    return z3.If(z3.And(z3.UGE(b, 65), z3.ULE(b, 90)), b + 32, b)

@pattern(r'std::char::methods::<impl char>::(is_ascii_\w+|is_ascii|is_whitespace|is_alphanumeric|is_alphabetic|is_numeric|is_control|is_uppercase|is_lowercase)')
def char_class(M, ctx, r):
    c = M.rdd(r)
    meth = ctx.method
    if is_sym(c):
        # only ASCII classes are modelled for symbolic chars; non-ASCII symbolic chars are decided conservatively by branching
        if not M.branch(z3.ULT(c, 128)):
            if meth.startswith('is_ascii'): return False
            raise EncoderGap('unicode class of symbolic non-ASCII char')
        b = z3.Extract(7, 0, c)
        m2 = {'is_whitespace': 'is_ascii_whitespace', 'is_alphanumeric': 'is_ascii_alphanumeric', 'is_alphabetic': 'is_ascii_alphabetic',
              'is_numeric': 'is_ascii_digit', 'is_control': 'is_ascii_control', 'is_uppercase': 'is_ascii_uppercase', 'is_lowercase': 'is_ascii_lowercase'}.get(meth, meth)
        return byte_class(M, b, m2)
    ch = chr(c)
    if meth.startswith('is_ascii'):
        if c >= 128: return False
        return byte_class(M, c, meth)
    return {'is_whitespace': ch.isspace(), 'is_alphanumeric': ch.isalnum(), 'is_alphabetic': ch.isalpha(), 'is_numeric': ch.isnumeric(),
            'is_control': (c < 32 or 127 <= c < 160), 'is_uppercase': ch.isupper(), 'is_lowercase': ch.islower()}[meth]

@model('std::char::methods::<impl char>::len_utf8')
def char_len_utf8(M, ctx, c):
    if is_sym(c):
        if M.branch(z3.ULT(c, 0x80)): return 1
        if M.branch(z3.ULT(c, 0x800)): return 2
        if M.branch(z3.ULT(c, 0x10000)): return 3
        return 4
    return len(chr(c).encode('utf-8', 'surrogatepass'))

@model('std::char::methods::<impl char>::to_ascii_uppercase', 'std::char::methods::<impl char>::to_ascii_lowercase')
def char_to_ascii_case(M, ctx, r):
    c = M.rdd(r)
    up = ctx.method == 'to_ascii_uppercase'
    if isinstance(c, int):
        return (c - 32 if 97 <= c <= 122 else c) if up else (c + 32 if 65 <= c <= 90 else c)
    if up: return z3.If(z3.And(z3.UGE(c, 97), z3.ULE(c, 122)), c - 32, c)
    return z3.If(z3.And(z3.UGE(c, 65), z3.ULE(c, 90)), c + 32, c)

# panics -----------------------------------------------------------------------------------------------
@model('std::panicking::panic_fmt', 'std::panicking::panic', 'std::rt::begin_panic', 'std::panicking::panic_display',
       'std::panicking::panic_explicit', 'std::panicking::unreachable_display', 'std::rt::panic_fmt', 'std::panicking::begin_panic',
       'std::panicking::panic_str_2015', 'std::panicking::panic_nounwind', 'std::panicking::assert_failed',
       'std::option::expect_failed', 'std::option::unwrap_failed', 'std::result::unwrap_failed')
def panic_fmt(M, ctx, *args):
    msg = 'explicit panic'
    try:
        from .fmt_m import render_any
        if args:
            out = []
            render_any(M, args[0], out)
            msg = bytes(x if isinstance(x, int) else 63 for x in out).decode('utf-8', 'replace')
    except Exception:
        pass
    raise Panic(msg)
