"""str / String models over byte buffers with symbolic bytes and concrete bounds."""
import z3
from . import model, pattern
from ..values import *
from ..machine import type_head
from .core_m import unit, sub_ref

def as_str(M, v):
    while True:
        if isinstance(v, Str): return v
        if isinstance(v, StringV): return v.view()
        if isinstance(v, (Ref, BoxV)):
            v = M.rd(v); continue
        if isinstance(v, Adt) and v.name == 'Cow':
            v = v.fields[0]; continue
        if isinstance(v, Slice):
            return Str([c.v for c in v.cells()])
        if isinstance(v, VecV):
            return Str([c.v for c in v.items])
        if isinstance(v, Tup):
            return Str(list(v))
        raise EncoderGap(f'expected a string, got {type(v).__name__} {v!r}')

def as_string(M, r):
    v = M.rd(r) if isinstance(r, (Ref, BoxV)) else r
    while isinstance(v, (Ref, BoxV)):
        v = M.rd(v)
    if not isinstance(v, StringV):
        raise EncoderGap(f'expected a String, got {type(v).__name__}')
    return v

def beq(b, c):
    """byte == concrete int -> bool | z3"""
    if isinstance(b, int): return b == c
    return b == c

def is_cont(M, b):
    """b is a UTF-8 continuation byte (decided on this path)"""
    if isinstance(b, int): return (b & 0xC0) == 0x80
    return M.branch((b & 0xC0) == 0x80)

def check_boundary(M, s, i, what='byte index'):
    n = len(s)
    if i == 0 or i == n: return
    if i > n:
        raise Panic(f'{what} {i} is out of bounds of string of length {n}')
    if is_cont(M, s.buf[s.s + i]):
        raise Panic(f'byte index {i} is not a char boundary')

def slice_str(M, s, a, b):
    n = len(s)
    if a is None: a = 0
    if b is None: b = n
    a = M.concretize(a, range(n + 2)); b = M.concretize(b, range(n + 2))
    if a > b: raise Panic(f'slice index starts at {a} but ends at {b}')
    if b > n: raise Panic(f'range end index {b} out of range for str of length {n}' if a <= n else f'range start index {a} out of range')
    check_boundary(M, s, a); check_boundary(M, s, b)
    return Str(s.buf, s.s + a, s.s + b)

def decode_char(M, s, i):
    """decode the char starting at byte offset i of s -> (char value, byte length); input is assumed valid UTF-8"""
    b0 = s.buf[s.s + i]
    n = len(s)
    if isinstance(b0, int):
        if b0 < 0x80: return b0, 1
        ln = 2 if b0 < 0xE0 else (3 if b0 < 0xF0 else 4)
    else:
        if M.branch(z3.ULT(b0, 0x80)): return z3.ZeroExt(24, b0), 1
        if M.branch(z3.ULT(b0, 0xE0)): ln = 2
        elif M.branch(z3.ULT(b0, 0xF0)): ln = 3
        else: ln = 4
    if i + ln > n:
        raise Infeasible()        # not valid UTF-8 (excluded by the input assumption)
    bs = [s.buf[s.s + i + k] for k in range(ln)]
    if all(isinstance(x, int) for x in bs):
        try:
            return ord(bytes(bs).decode('utf-8')), ln
        except UnicodeDecodeError:
            return 0xFFFD, ln
    Z = lambda x: z3.ZeroExt(24, x) if is_sym(x) else z3.BitVecVal(x, 32)
    if ln == 2: c = ((Z(bs[0]) & 0x1F) << 6) | (Z(bs[1]) & 0x3F)
    elif ln == 3: c = ((Z(bs[0]) & 0x0F) << 12) | ((Z(bs[1]) & 0x3F) << 6) | (Z(bs[2]) & 0x3F)
    else: c = ((Z(bs[0]) & 0x07) << 18) | ((Z(bs[1]) & 0x3F) << 12) | ((Z(bs[2]) & 0x3F) << 6) | (Z(bs[3]) & 0x3F)
    return z3.simplify(c), ln

def utf8_valid_constraint(bs):
    """z3 constraint: the byte list is well-formed UTF-8 (sequences up to 4 bytes; no overlong/surrogate check beyond lead ranges)"""
    n = len(bs)
    conds = []
    # position i is a start iff previous sequences end there: encode with lead-class automaton over concrete n
    # state k = number of continuation bytes still expected (0..3)
    B = lambda x: x if is_sym(x) else z3.BitVecVal(x, 8)
    exp = [z3.BitVecVal(0, 2)]
    for i in range(n):
        b = B(bs[i])
        e = exp[-1]
        is_c = (b & 0xC0) == 0x80
        lead1 = z3.ULT(b, 0x80)
        lead2 = z3.And(z3.UGE(b, 0xC2), z3.ULE(b, 0xDF))
        lead3 = z3.And(z3.UGE(b, 0xE0), z3.ULE(b, 0xEF))
        lead4 = z3.And(z3.UGE(b, 0xF0), z3.ULE(b, 0xF4))
        conds.append(z3.If(e == 0, z3.Or(lead1, lead2, lead3, lead4), is_c))
        # overlong / surrogate exclusions on the second byte
        if i + 1 < n:
            b1 = B(bs[i + 1])
            conds.append(z3.Implies(z3.And(e == 0, b == 0xE0), z3.UGE(b1, 0xA0)))
            conds.append(z3.Implies(z3.And(e == 0, b == 0xED), z3.ULE(b1, 0x9F)))
            conds.append(z3.Implies(z3.And(e == 0, b == 0xF0), z3.UGE(b1, 0x90)))
            conds.append(z3.Implies(z3.And(e == 0, b == 0xF4), z3.ULE(b1, 0x8F)))
        nxt = z3.If(e == 0, z3.If(lead2, z3.BitVecVal(1, 2), z3.If(lead3, z3.BitVecVal(2, 2), z3.If(lead4, z3.BitVecVal(3, 2), z3.BitVecVal(0, 2)))), e - 1)
        exp.append(nxt)
    conds.append(exp[-1] == 0)
    return z3.And(conds) if conds else z3.BoolVal(True)

def encode_char(M, c):
    if isinstance(c, int):
        return list(chr(c).encode('utf-8', 'surrogatepass'))
    if M.branch(z3.ULT(c, 0x80)):
        return [z3.Extract(7, 0, c)]
    if M.branch(z3.ULT(c, 0x800)):
        return [z3.Extract(7, 0, 0xC0 | z3.LShR(c, 6)), z3.Extract(7, 0, 0x80 | (c & 0x3F))]
    if M.branch(z3.ULT(c, 0x10000)):
        return [z3.Extract(7, 0, 0xE0 | z3.LShR(c, 12)), z3.Extract(7, 0, 0x80 | (z3.LShR(c, 6) & 0x3F)), z3.Extract(7, 0, 0x80 | (c & 0x3F))]
    return [z3.Extract(7, 0, 0xF0 | z3.LShR(c, 18)), z3.Extract(7, 0, 0x80 | (z3.LShR(c, 12) & 0x3F)),
            z3.Extract(7, 0, 0x80 | (z3.LShR(c, 6) & 0x3F)), z3.Extract(7, 0, 0x80 | (c & 0x3F))]

# ------------------------------------------------------------------------------------------ pattern matching
def make_matcher(M, pat, ctx):
    """-> function(s, i) -> matched byte length or None (decides by branching); for char / &str / closure / &[char] patterns"""
    p = pat
    if isinstance(p, (Ref, BoxV)):
        inner = M.rd(p)
        if isinstance(inner, (Closure, FnItem)):
            p = p
        elif isinstance(inner, Ref) and isinstance(M.rd(inner), (Closure, FnItem)):
            p = inner
        else:
            p = inner
    if isinstance(p, StringV): p = p.view()
    if isinstance(p, (int,)) or is_sym(p):
        if isinstance(p, int) and p < 0x80:
            def m_ascii(s, i):
                return 1 if M.branch(beq(s.buf[s.s + i], p)) else None
            return m_ascii, 1
        enc = encode_char(M, p)
        def m_char(s, i):
            if i + len(enc) > len(s): return None
            c = M.and_all(beq(s.buf[s.s + i + k], enc[k]) if isinstance(enc[k], int) else (s.buf[s.s + i + k] == enc[k]) for k in range(len(enc)))
            return len(enc) if M.branch(c) else None
        return m_char, len(enc)
    if isinstance(p, Str):
        pb = p.bytes()
        def m_str(s, i):
            if i + len(pb) > len(s): return None
            c = M.and_all((s.buf[s.s + i + k] == pb[k]) for k in range(len(pb)))
            return len(pb) if M.branch(c) else None
        return m_str, len(pb)
    if isinstance(p, (Closure, FnItem)) or (isinstance(p, Ref) and isinstance(M.rd(p), (Closure, FnItem))):
        def m_clo(s, i):
            ch, ln = decode_char(M, s, i)
            r = M.call_value(p, [ch])
            return ln if M.branch(r) else None
        return m_clo, None
    if isinstance(p, (Tup, Slice)):
        chars = list(p) if isinstance(p, Tup) else [c.v for c in p.cells()]
        def m_set(s, i):
            ch, ln = decode_char(M, s, i)
            r = M.or_all((ch == c) for c in chars)
            return ln if M.branch(r) else None
        return m_set, None
    raise EncoderGap(f'string pattern {type(p).__name__}')

def next_char_len(M, s, i):
    b0 = s.buf[s.s + i]
    if isinstance(b0, int):
        return 1 if b0 < 0x80 else (2 if b0 < 0xE0 else (3 if b0 < 0xF0 else 4))
    if M.branch(z3.ULT(b0, 0x80)): return 1
    if M.branch(z3.ULT(b0, 0xE0)): return 2
    if M.branch(z3.ULT(b0, 0xF0)): return 3
    return 4

def find_from(M, s, matcher, fixed_len, start=0):
    """first match position >= start -> (pos, len) or None"""
    n = len(s)
    i = start
    if fixed_len == 0:
        return (start, 0)
    while i < n:
        if fixed_len is not None and fixed_len >= 1 and not isinstance(matcher, type(None)):
            pass
        ln = matcher(s, i)
        if ln is not None:
            return (i, ln)
        # advance: ASCII/byte patterns may step bytewise (UTF-8 self-synchronising); char predicates step by chars
        if fixed_len is None:
            i += next_char_len(M, s, i)
        else:
            i += 1
    return None

def rfind_from(M, s, matcher, fixed_len):
    n = len(s)
    if fixed_len == 0: return (n, 0)
    if fixed_len is None:
        # collect char starts
        starts = []
        i = 0
        while i < n:
            starts.append(i); i += next_char_len(M, s, i)
        for i in reversed(starts):
            ln = matcher(s, i)
            if ln is not None: return (i, ln)
        return None
    for i in range(n - fixed_len, -1, -1):
        ln = matcher(s, i)
        if ln is not None: return (i, ln)
    return None

# ------------------------------------------------------------------------------------------ str methods
S = 'std::str::<impl str>::'

@model(S + 'len', 'std::string::String::len')
def str_len(M, ctx, s):
    return len(as_str(M, s))

@model(S + 'is_empty', 'std::string::String::is_empty')
def str_is_empty(M, ctx, s):
    return len(as_str(M, s)) == 0

@model(S + 'as_bytes', 'std::string::String::as_bytes', 'std::string::String::as_str', S + 'as_str', 'std::string::String::as_mut_str',
       'std::string::String::into_bytes', S + 'as_ptr')
def str_as_bytes(M, ctx, s):
    v = as_str(M, s)
    if ctx.method == 'into_bytes': return VecV(v.bytes())
    return v

@model(S + 'bytes')
def str_bytes(M, ctx, s):
    v = as_str(M, s)
    return Iter(iter(v.bytes()), 'bytes')

@model(S + 'chars')
def str_chars(M, ctx, s):
    v = as_str(M, s)
    def gen():
        i = 0
        while i < len(v):
            ch, ln = decode_char(M, v, i)
            i += ln
            yield ch
    return Iter(gen(), 'chars')

@model(S + 'char_indices')
def str_char_indices(M, ctx, s):
    v = as_str(M, s)
    def gen():
        i = 0
        while i < len(v):
            ch, ln = decode_char(M, v, i)
            yield Tup([i, ch])
            i += ln
    return Iter(gen(), 'char_indices')

@model(S + 'find')
def str_find(M, ctx, s, pat):
    v = as_str(M, s)
    mt, fl = make_matcher(M, pat, ctx)
    r = find_from(M, v, mt, fl)
    return some(r[0]) if r else NONE()

@model(S + 'match_indices')
def str_match_indices(M, ctx, s, pat):
    v = as_str(M, s)
    mt, fl = make_matcher(M, pat, ctx)
    def gen():
        pos = 0
        while pos <= len(v):
            r = find_from(M, v, mt, fl, pos) if pos < len(v) else None
            if r is None: return
            yield Tup([r[0], Str(v.buf, v.s + r[0], v.s + r[0] + r[1])])
            pos = r[0] + max(r[1], 1)
    return Iter(gen(), 'match_indices')

@model(S + 'matches')
def str_matches(M, ctx, s, pat):
    v = as_str(M, s)
    mt, fl = make_matcher(M, pat, ctx)
    def gen():
        pos = 0
        while pos < len(v):
            r = find_from(M, v, mt, fl, pos)
            if r is None: return
            yield Str(v.buf, v.s + r[0], v.s + r[0] + r[1])
            pos = r[0] + max(r[1], 1)
    return Iter(gen(), 'matches')

@model(S + 'rfind')
def str_rfind(M, ctx, s, pat):
    v = as_str(M, s)
    mt, fl = make_matcher(M, pat, ctx)
    r = rfind_from(M, v, mt, fl)
    return some(r[0]) if r else NONE()

@model(S + 'contains')
def str_contains(M, ctx, s, pat):
    v = as_str(M, s)
    # no position is needed: build one formula instead of forking per position when the pattern is bytes
    p = pat
    if isinstance(p, (Ref, BoxV)): p = M.rdd(p)
    if isinstance(p, StringV): p = p.view()
    if isinstance(p, int) and p < 0x80:
        return M.or_all(beq(b, p) for b in v.bytes())
    if isinstance(p, Str):
        pb = p.bytes(); n = len(v)
        if len(pb) == 0: return True
        return M.or_all(M.and_all((v.buf[v.s + i + k] == pb[k]) for k in range(len(pb))) for i in range(0, n - len(pb) + 1))
    mt, fl = make_matcher(M, pat, ctx)
    return find_from(M, v, mt, fl) is not None

@model(S + 'starts_with')
def str_starts_with(M, ctx, s, pat):
    v = as_str(M, s)
    p = pat
    if isinstance(p, (Ref, BoxV)): p = M.rdd(p)
    if isinstance(p, StringV): p = p.view()
    if isinstance(p, int) and p < 0x80:
        return len(v) > 0 and beq(v.buf[v.s], p)
    if isinstance(p, Str):
        pb = p.bytes()
        if len(pb) > len(v): return False
        return M.and_all((v.buf[v.s + k] == pb[k]) for k in range(len(pb)))
    if len(v) == 0: return False
    mt, fl = make_matcher(M, pat, ctx)
    return mt(v, 0) is not None

@model(S + 'ends_with')
def str_ends_with(M, ctx, s, pat):
    v = as_str(M, s)
    p = pat
    if isinstance(p, (Ref, BoxV)): p = M.rdd(p)
    if isinstance(p, StringV): p = p.view()
    if isinstance(p, int) and p < 0x80:
        return len(v) > 0 and beq(v.buf[v.e - 1], p)
    if isinstance(p, Str):
        pb = p.bytes()
        if len(pb) > len(v): return False
        off = len(v) - len(pb)
        return M.and_all((v.buf[v.s + off + k] == pb[k]) for k in range(len(pb)))
    mt, fl = make_matcher(M, pat, ctx)
    r = rfind_from(M, v, mt, fl)
    return r is not None and r[0] + r[1] == len(v)

@model(S + 'strip_prefix')
def str_strip_prefix(M, ctx, s, pat):
    v = as_str(M, s)
    if len(v) == 0:
        p = M.rdd(pat) if isinstance(pat, (Ref, BoxV)) else pat
        if isinstance(p, (Str, StringV)) and len(as_str(M, p)) == 0: return some(v)
        return NONE()
    mt, fl = make_matcher(M, pat, ctx)
    if fl == 0: return some(v)
    ln = mt(v, 0)
    return some(Str(v.buf, v.s + ln, v.e)) if ln is not None else NONE()

@model(S + 'strip_suffix')
def str_strip_suffix(M, ctx, s, pat):
    v = as_str(M, s)
    mt, fl = make_matcher(M, pat, ctx)
    if fl is None: raise EncoderGap('strip_suffix with predicate')
    if fl > len(v): return NONE()
    ln = mt(v, len(v) - fl) if fl else 0
    return some(Str(v.buf, v.s, v.e - fl)) if ln is not None else NONE()

@model(S + 'split_once')
def str_split_once(M, ctx, s, pat):
    v = as_str(M, s)
    mt, fl = make_matcher(M, pat, ctx)
    r = find_from(M, v, mt, fl)
    if not r: return NONE()
    return some(Tup([Str(v.buf, v.s, v.s + r[0]), Str(v.buf, v.s + r[0] + r[1], v.e)]))

@model(S + 'rsplit_once')
def str_rsplit_once(M, ctx, s, pat):
    v = as_str(M, s)
    mt, fl = make_matcher(M, pat, ctx)
    r = rfind_from(M, v, mt, fl)
    if not r: return NONE()
    return some(Tup([Str(v.buf, v.s, v.s + r[0]), Str(v.buf, v.s + r[0] + r[1], v.e)]))

def _split_gen(M, v, mt, fl, terminator=False, limit=None):
    pos = 0
    n = len(v)
    count = 0
    while True:
        if limit is not None and count == limit - 1:
            yield Str(v.buf, v.s + pos, v.e); return
        r = find_from(M, v, mt, fl, pos) if pos <= n else None
        if r is None:
            if terminator and pos == n: return
            yield Str(v.buf, v.s + pos, v.e); return
        yield Str(v.buf, v.s + pos, v.s + r[0])
        count += 1
        pos = r[0] + r[1]
        if fl == 0: raise EncoderGap('split on empty pattern')

@model(S + 'split')
def str_split(M, ctx, s, pat):
    v = as_str(M, s)
    mt, fl = make_matcher(M, pat, ctx)
    return Iter(_split_gen(M, v, mt, fl), 'split')

@model(S + 'split_terminator')
def str_split_terminator(M, ctx, s, pat):
    v = as_str(M, s)
    mt, fl = make_matcher(M, pat, ctx)
    return Iter(_split_gen(M, v, mt, fl, terminator=True), 'split_terminator')

@model(S + 'splitn')
def str_splitn(M, ctx, s, n, pat):
    v = as_str(M, s)
    mt, fl = make_matcher(M, pat, ctx)
    n = M.concretize(n)
    if n == 0: return Iter(iter(()), 'splitn')
    return Iter(_split_gen(M, v, mt, fl, limit=n), 'splitn')

@model(S + 'rsplit')
def str_rsplit(M, ctx, s, pat):
    v = as_str(M, s)
    mt, fl = make_matcher(M, pat, ctx)
    parts = list(_split_gen(M, v, mt, fl))
    return Iter(iter(reversed(parts)), 'rsplit')

@model(S + 'lines')
def str_lines(M, ctx, s):
    v = as_str(M, s)
    def gen():
        mt, fl = make_matcher(M, 10, ctx)
        for part in _split_gen(M, v, mt, fl, terminator=True):
            if len(part) and M.branch(beq(part.buf[part.e - 1], 13)):
                part = Str(part.buf, part.s, part.e - 1)
            yield part
    return Iter(gen(), 'lines')

def is_ascii_ws(M, b):
    if isinstance(b, int): return b in (9, 10, 12, 13, 32)
    return M.branch(z3.Or(b == 32, b == 9, b == 10, b == 12, b == 13))

def is_unicode_ws_at(M, v, i):
    """(is whitespace, byte len) of char at i using Unicode White_Space"""
    b = v.buf[v.s + i]
    if isinstance(b, int) and b < 0x80:
        return b in (9, 10, 11, 12, 13, 32), 1
    if is_sym(b):
        if M.branch(z3.ULT(b, 0x80)):
            return M.branch(z3.Or(b == 32, z3.And(z3.UGE(b, 9), z3.ULE(b, 13)))), 1
    ch, ln = decode_char(M, v, i)
    WS = (0x85, 0xA0, 0x1680, 0x2028, 0x2029, 0x202F, 0x205F, 0x3000)
    if isinstance(ch, int):
        return (ch in WS or 0x2000 <= ch <= 0x200A), ln
    c = z3.Or([ch == w for w in WS] + [z3.And(z3.UGE(ch, 0x2000), z3.ULE(ch, 0x200A))])
    return M.branch(c), ln

@model(S + 'split_ascii_whitespace')
def str_split_ascii_ws(M, ctx, s):
    v = as_str(M, s)
    def gen():
        i = 0; n = len(v)
        while i < n:
            while i < n and is_ascii_ws(M, v.buf[v.s + i]): i += 1
            if i >= n: return
            j = i
            while j < n and not is_ascii_ws(M, v.buf[v.s + j]): j += 1
            yield Str(v.buf, v.s + i, v.s + j)
            i = j
    return Iter(gen(), 'split_ascii_whitespace')

@model(S + 'split_whitespace')
def str_split_ws(M, ctx, s):
    v = as_str(M, s)
    def gen():
        i = 0; n = len(v)
        while i < n:
            while i < n:
                w, ln = is_unicode_ws_at(M, v, i)
                if not w: break
                i += ln
            if i >= n: return
            j = i
            while j < n:
                w, ln = is_unicode_ws_at(M, v, j)
                if w: break
                j += ln
            yield Str(v.buf, v.s + i, v.s + j)
            i = j
    return Iter(gen(), 'split_whitespace')

@model(S + 'trim_start', S + 'trim_left')
def str_trim_start(M, ctx, s):
    v = as_str(M, s)
    i = 0; n = len(v)
    while i < n:
        w, ln = is_unicode_ws_at(M, v, i)
        if not w: break
        i += ln
    return Str(v.buf, v.s + i, v.e)

def _trim_end_idx(M, v, lo):
    # walk chars from lo to collect boundaries, then trim from the end
    starts = []
    i = lo; n = len(v)
    while i < n:
        starts.append(i); i += next_char_len(M, v, i)
    e = n
    for st in reversed(starts):
        w, ln = is_unicode_ws_at(M, v, st)
        if not w: break
        e = st
    return e

@model(S + 'trim_end', S + 'trim_right')
def str_trim_end(M, ctx, s):
    v = as_str(M, s)
    e = _trim_end_idx(M, v, 0)
    return Str(v.buf, v.s, v.s + e)

@model(S + 'trim')
def str_trim(M, ctx, s):
    v = as_str(M, s)
    i = 0; n = len(v)
    while i < n:
        w, ln = is_unicode_ws_at(M, v, i)
        if not w: break
        i += ln
    e = _trim_end_idx(M, v, i)
    return Str(v.buf, v.s + i, v.s + max(e, i))

@model(S + 'trim_start_matches', S + 'trim_left_matches')
def str_trim_start_matches(M, ctx, s, pat):
    v = as_str(M, s)
    mt, fl = make_matcher(M, pat, ctx)
    i = 0
    while i < len(v):
        ln = mt(v, i)
        if ln is None or ln == 0: break
        i += ln
    return Str(v.buf, v.s + i, v.e)

@model(S + 'trim_end_matches', S + 'trim_right_matches')
def str_trim_end_matches(M, ctx, s, pat):
    v = as_str(M, s)
    mt, fl = make_matcher(M, pat, ctx)
    if fl is None or fl == 0: raise EncoderGap('trim_end_matches with predicate')
    e = len(v)
    while e - fl >= 0 and mt(v, e - fl) is not None:
        e -= fl
    return Str(v.buf, v.s, v.s + e)

@model(S + 'to_ascii_uppercase', S + 'to_ascii_lowercase', 'std::string::String::to_ascii_uppercase')
def str_to_ascii_case(M, ctx, s):
    v = as_str(M, s)
    up = 'upper' in ctx.method
    out = []
    for b in v.bytes():
        if isinstance(b, int):
            out.append((b - 32 if 97 <= b <= 122 else b) if up else (b + 32 if 65 <= b <= 90 else b))
        else:
            out.append(z3.If(z3.And(z3.UGE(b, 97), z3.ULE(b, 122)), b - 32, b) if up else z3.If(z3.And(z3.UGE(b, 65), z3.ULE(b, 90)), b + 32, b))
    return StringV(out)

@model(S + 'to_uppercase', S + 'to_lowercase')
def str_to_case(M, ctx, s):
    v = as_str(M, s)
    p = v.py()
    if p is None:
        # symbolic content: ASCII letters map as usual; the non-ASCII characters whose Unicode case mapping is made of ASCII letters are
        # mapped exactly (they are what makes this function differ from the ASCII one for protocol keywords); every other non-ASCII
        # character maps to unconstrained non-ASCII bytes of the same length (sound for comparisons with ASCII text, nothing else)
        up = ctx.method == 'to_uppercase'
        special = ({(0xC4, 0xB1): b'I', (0xC5, 0xBF): b'S', (0xC3, 0x9F): b'SS', (0xEF, 0xAC, 0x80): b'FF', (0xEF, 0xAC, 0x81): b'FI', (0xEF, 0xAC, 0x82): b'FL',
                    (0xEF, 0xAC, 0x83): b'FFI', (0xEF, 0xAC, 0x84): b'FFL', (0xEF, 0xAC, 0x85): b'ST', (0xEF, 0xAC, 0x86): b'ST'} if up
                   else {(0xE2, 0x84, 0xAA): b'k'})
        bs = list(v.bytes()); out = []; i = 0
        while i < len(bs):
            b = bs[i]
            asc = (b < 128) if isinstance(b, int) else M.branch(z3.ULT(b, 128))
            if asc:
                if isinstance(b, int): out.append((b - 32 if 97 <= b <= 122 else b) if up else (b + 32 if 65 <= b <= 90 else b))
                else: out.append(z3.If(z3.And(z3.UGE(b, 97), z3.ULE(b, 122)), b - 32, b) if up else z3.If(z3.And(z3.UGE(b, 65), z3.ULE(b, 90)), b + 32, b))
                i += 1; continue
            ln = next_char_len(M, v, i)
            hit = None
            for seq, rep in special.items():
                if len(seq) != ln: continue
                conds = [(bs[i + k] == seq[k]) for k in range(ln)]
                c = all(conds) if all(isinstance(x, bool) for x in conds) else z3.And([x if not isinstance(x, bool) else z3.BoolVal(x) for x in conds])
                if M.branch(c): hit = rep; break
            if hit is not None: out.extend(hit)
            else:
                for k in range(ln):
                    fb = M.fresh_bv('casemap', 8); M.assume(z3.UGE(fb, 128)); out.append(fb)
            i += ln
        return StringV(out)
    return mkstring(p.upper() if ctx.method == 'to_uppercase' else p.lower())

@model(S + 'eq_ignore_ascii_case')
def str_eq_ignore_case(M, ctx, a, b):
    x, y = as_str(M, a), as_str(M, b)
    if len(x) != len(y): return False
    def low(c):
        if isinstance(c, int): return c + 32 if 65 <= c <= 90 else c
        return z3.If(z3.And(z3.UGE(c, 65), z3.ULE(c, 90)), c + 32, c)
    return M.and_all((low(p) == low(q)) for p, q in zip(x.bytes(), y.bytes()))

@model(S + 'is_char_boundary')
def str_is_char_boundary(M, ctx, s, i):
    v = as_str(M, s)
    i = M.concretize(i, range(len(v) + 2))
    if i == 0 or i == len(v): return True
    if i > len(v): return False
    return not is_cont(M, v.buf[v.s + i])

@model(S + 'get', S + 'get_mut')
def str_get(M, ctx, s, rng):
    v = as_str(M, s)
    a, b = range_bounds(M, rng, len(v))
    if a > b or b > len(v): return NONE()
    for i in (a, b):
        if 0 < i < len(v) and is_cont(M, v.buf[v.s + i]): return NONE()
    return some(Str(v.buf, v.s + a, v.s + b))

@model(S + 'get_unchecked', S + 'get_unchecked_mut')
def str_get_unchecked(M, ctx, s, rng):
    v = as_str(M, s)
    a, b = range_bounds(M, rng, len(v))
    return Str(v.buf, v.s + a, v.s + b)

def range_bounds(M, rng, n):
    r = rng
    if isinstance(r, Adt):
        nm = r.name
        f = [M.concretize(x, range(n + 2)) if (isinstance(x, int) or is_sym(x)) else x for x in r.fields]
        if nm == 'Range': return f[0], f[1]
        if nm == 'RangeFrom': return f[0], n
        if nm == 'RangeTo': return 0, f[0]
        if nm == 'RangeFull': return 0, n
        if nm == 'RangeInclusive': return f[0], f[1] + 1
        if nm == 'RangeToInclusive': return 0, f[0] + 1
    raise EncoderGap('range ' + repr(rng))

@model(S + 'parse')
def str_parse(M, ctx, s):
    v = as_str(M, s)
    ty = (ctx.targs or '').strip()
    from ..machine import INT_W, SIGNED
    if ty in INT_W and ty != 'char':
        return parse_int(M, v, ty)
    if ty == 'bool':
        if M.branch(M.values_equal(v, mkstr('true'))): return ok(True)
        if M.branch(M.values_equal(v, mkstr('false'))): return ok(False)
        return err(Opaque('ParseBoolError'))
    raise EncoderGap('str::parse::<' + ty + '>')

@model('std::str::FromStr::from_str')
def from_str_m(M, ctx, s):
    ty = type_head(ctx.self_ty or '')
    from ..machine import INT_W
    if ty in INT_W and ty != 'char':
        return parse_int(M, as_str(M, s), ty)
    if ty == 'String':
        return ok(StringV(as_str(M, s).bytes()))
    raise EncoderGap('FromStr for ' + str(ctx.self_ty))

def parse_int(M, v, ty):
    from ..machine import INT_W, SIGNED
    w = INT_W[ty]; signed = ty in SIGNED
    bs = v.bytes()
    perr = lambda kind: err(Adt('ParseIntError', 0, [Opaque(kind)]))
    if len(bs) == 0: return perr('Empty')
    neg = False
    i = 0
    b0 = bs[0]
    if M.branch(beq(b0, 43)):            # '+'
        i = 1
    elif M.branch(beq(b0, 45)):          # '-'
        if signed:
            neg = True; i = 1
        else:
            # unsigned: "-" alone or "-..." is InvalidDigit
            return perr('InvalidDigit')
    if i == len(bs): return perr('InvalidDigit')
    maxv = (1 << (w - 1)) - 1 if signed else (1 << w) - 1
    allc = all(isinstance(b, int) for b in bs[i:])
    if allc:
        val = 0
        for b in bs[i:]:
            if not (48 <= b <= 57): return perr('InvalidDigit')
            val = val * 10 + (b - 48)
        if neg:
            if val > maxv + 1: return perr('NegOverflow')
            return ok(-val)
        if val > maxv: return perr('PosOverflow')
        return ok(val)
    # symbolic digits: accumulate in a wide bit-vector
    W = w + 8
    acc = z3.BitVecVal(0, W)
    for b in bs[i:]:
        B = b if is_sym(b) else z3.BitVecVal(b, 8)
        if not M.branch(z3.And(z3.UGE(B, 48), z3.ULE(B, 57))): return perr('InvalidDigit')
        # overflow check step by step (as std does)
        nxt = acc * 10 + z3.ZeroExt(W - 8, B - 48)
        lim = z3.BitVecVal(maxv + (1 if neg else 0), W)
        if M.branch(z3.UGT(nxt, lim)): return perr('NegOverflow' if neg else 'PosOverflow')
        acc = nxt
    val = z3.simplify(z3.Extract(w - 1, 0, acc))
    if neg: val = -val
    return ok(val)

@model(S + 'repeat')
def str_repeat(M, ctx, s, n):
    v = as_str(M, s); n = M.concretize(n)
    return StringV(v.bytes() * n)

@model(S + 'to_string', S + 'to_owned', S + 'into_string')
def str_to_string_inh(M, ctx, s):
    return StringV(as_str(M, s).bytes())

# Index -------------------------------------------------------------------------------------------------
@model('std::ops::Index::index', 'std::ops::IndexMut::index_mut')
def index_m(M, ctx, base, idx):
    b = base
    if isinstance(b, (Ref, BoxV)):
        bv = M.rd(b)
    else:
        bv = b
    if isinstance(bv, Ref) and not isinstance(M.rd(bv), (int, bool)):
        b = bv; bv = M.rd(bv)
    if isinstance(bv, (Str, StringV)):
        s = as_str(M, bv)
        a, e = range_bounds(M, idx, len(s))
        return slice_str(M, s, a, e)
    if isinstance(bv, (VecV, Slice, Tup)):
        cells = bv.items if isinstance(bv, VecV) else (bv.cells() if isinstance(bv, Slice) else None)
        n = len(cells) if cells is not None else len(bv)
        if isinstance(idx, int) or is_sym(idx):
            i = M.concretize(idx, range(n + 1))
            if i >= n: raise Panic(f'index out of bounds: the len is {n} but the index is {i}')
            if cells is not None: return Ref(cells[i])
            return Ref(b.cell, b.path + (('ix', i),)) if isinstance(b, Ref) else Ref(Cell(bv), (('ix', i),))
        a, e = range_bounds(M, idx, n)
        if a > e: raise Panic(f'slice index starts at {a} but ends at {e}')
        if e > n: raise Panic(f'range end index {e} out of range for slice of length {n}')
        if cells is None: cells = [Cell(x) for x in bv]
        base_s = bv.s if isinstance(bv, Slice) else 0
        items = bv.items if isinstance(bv, (Slice, VecV)) else cells
        return Slice(items, base_s + a, base_s + e)
    if isinstance(bv, HMap):
        from .coll_m import hm_lookup
        sl = hm_lookup(M, bv, idx)
        if sl is None: raise Panic('key not found in map (Index)')
        return Ref(sl[2])
    raise EncoderGap(f'Index on {type(bv).__name__}')

# String ------------------------------------------------------------------------------------------------
@model('std::string::String::new')
def string_new(M, ctx):
    return StringV()

@model('std::string::String::with_capacity')
def string_with_capacity(M, ctx, n):
    return StringV()

@model('std::string::String::push')
def string_push(M, ctx, r, c):
    as_string(M, r).data.extend(encode_char(M, c))
    return unit()

@model('std::string::String::push_str')
def string_push_str(M, ctx, r, s):
    as_string(M, r).data.extend(as_str(M, s).bytes())
    return unit()

@model('std::ops::AddAssign::add_assign')
def add_assign(M, ctx, r, s):
    v = M.rd(r)
    if isinstance(v, StringV):
        v.data.extend(as_str(M, s).bytes()); return unit()
    if isinstance(v, (int, bool)) or is_sym(v):
        M.store(r.cell, r.path, M.binop_t('Add', v, s, type_head(ctx.self_ty or 'usize')))
        return unit()
    raise EncoderGap('AddAssign on ' + type(v).__name__)

@model('std::ops::Add::add')
def add_m(M, ctx, a, b):
    if isinstance(a, StringV):
        a.data.extend(as_str(M, b).bytes()); return a
    if isinstance(a, (Ref, BoxV)): a = M.rdd(a)
    if isinstance(b, (Ref, BoxV)) and not isinstance(a, StringV): b = M.rdd(b)
    if isinstance(a, (int,)) or is_sym(a):
        return M.binop_t('Add', a, b, type_head(ctx.self_ty or 'usize'))
    raise EncoderGap('Add on ' + type(a).__name__)

@model('std::string::String::clear')
def string_clear(M, ctx, r):
    del as_string(M, r).data[:]
    return unit()

@model('std::string::String::pop')
def string_pop(M, ctx, r):
    sv = as_string(M, r)
    if not sv.data: return NONE()
    v = sv.view()
    i = len(v) - 1
    while i > 0 and is_cont(M, v.buf[i]): i -= 1
    ch, ln = decode_char(M, v, i)
    del sv.data[i:]
    return some(ch)

@model('std::string::String::truncate')
def string_truncate(M, ctx, r, n):
    sv = as_string(M, r); n = M.concretize(n, range(len(sv.data) + 2))
    if n <= len(sv.data):
        check_boundary(M, sv.view(), n)
        del sv.data[n:]
    return unit()

@model('std::string::String::insert_str', 'std::string::String::insert')
def string_insert(M, ctx, r, i, s):
    sv = as_string(M, r); i = M.concretize(i, range(len(sv.data) + 2))
    if i > len(sv.data): raise Panic('assertion failed: self.is_char_boundary(idx)')
    check_boundary(M, sv.view(), i)
    sv.data[i:i] = (as_str(M, s).bytes() if ctx.method == 'insert_str' else encode_char(M, s))
    return unit()

@model('std::string::String::reserve', 'std::string::String::shrink_to_fit', 'std::string::String::reserve_exact')
def string_reserve(M, ctx, r, *a):
    return unit()

@model('std::string::String::capacity')
def string_capacity(M, ctx, r):
    return len(as_string(M, r).data)

@model('std::string::String::from_utf8')
def string_from_utf8(M, ctx, v):
    bs = [c.v for c in v.items] if isinstance(v, VecV) else as_str(M, v).bytes()
    if all(isinstance(b, int) for b in bs):
        try:
            bytes(bs).decode('utf-8'); return ok(StringV(bs))
        except UnicodeDecodeError:
            return err(Opaque('FromUtf8Error'))
    if M.branch(utf8_valid_constraint(bs)): return ok(StringV(bs))
    return err(Opaque('FromUtf8Error'))

@model('std::string::String::from_utf8_lossy', 'std::str::from_utf8_unchecked', 'std::string::String::from_utf8_unchecked')
def string_from_utf8_lossy(M, ctx, v):
    return as_str(M, v)

@model('std::str::from_utf8', 'std::str::converts::from_utf8')
def str_from_utf8(M, ctx, v):
    s = as_str(M, v)
    bs = s.bytes()
    if all(isinstance(b, int) for b in bs):
        try:
            bytes(bs).decode('utf-8'); return ok(s)
        except UnicodeDecodeError:
            return err(Opaque('Utf8Error'))
    if M.branch(utf8_valid_constraint(bs)): return ok(s)
    return err(Opaque('Utf8Error'))

@model('std::string::String::drain')
def string_drain(M, ctx, r, rng):
    sv = as_string(M, r)
    a, b = range_bounds(M, rng, len(sv.data))
    out = sv.data[a:b]; del sv.data[a:b]
    tmp = Str(out)
    def gen():
        i = 0
        while i < len(tmp):
            ch, ln = decode_char(M, tmp, i); i += ln; yield ch
    return Iter(gen(), 'drain')

@model('std::string::String::retain')
def string_retain(M, ctx, r, f):
    sv = as_string(M, r); v = Str(list(sv.data))
    out = []; i = 0
    while i < len(v):
        ch, ln = decode_char(M, v, i)
        if M.branch(M.call_value(f, [ch])): out.extend(v.buf[i:i + ln])
        i += ln
    sv.data[:] = out
    return unit()

@model('std::string::String::split_off')
def string_split_off(M, ctx, r, at):
    sv = as_string(M, r); at = M.concretize(at, range(len(sv.data) + 2))
    if at > len(sv.data): raise Panic('assertion failed: self.is_char_boundary(at)')
    check_boundary(M, sv.view(), at)
    out = StringV(sv.data[at:]); del sv.data[at:]
    return out

@model('std::string::String::into_boxed_str', 'std::string::String::leak')
def string_into_boxed(M, ctx, s):
    return as_str(M, s)

@model('std::string::ToString::to_string')
def to_string_m(M, ctx, r):
    v = M.rd(r) if isinstance(r, (Ref, BoxV)) else r
    while isinstance(v, (Ref, BoxV)):
        v = M.rd(v)
    if isinstance(v, Str): return StringV(v.bytes())
    if isinstance(v, StringV): return StringV(v.data)
    from .fmt_m import render_display
    out = []
    render_display(M, r, out, 'char' if type_head(ctx.self_ty or '') == 'char' else None)
    return StringV(out)

@model('std::fmt::Write::write_str')
def write_str_m(M, ctx, r, s):
    v = M.rdd(r)
    if isinstance(v, StringV):
        v.data.extend(as_str(M, s).bytes()); return ok(Tup())
    if isinstance(v, Adt) and v.name == 'Formatter':
        v.fields[0].extend(as_str(M, s).bytes()); return ok(Tup())
    raise EncoderGap('fmt::Write::write_str on ' + type(v).__name__)

@model('std::fmt::Write::write_char')
def write_char_m(M, ctx, r, c):
    v = M.rdd(r)
    if isinstance(v, StringV):
        v.data.extend(encode_char(M, c)); return ok(Tup())
    if isinstance(v, Adt) and v.name == 'Formatter':
        v.fields[0].extend(encode_char(M, c)); return ok(Tup())
    raise EncoderGap('fmt::Write::write_char on ' + type(v).__name__)
