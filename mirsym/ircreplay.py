"""Native replay of handler-level counterexamples: the unmodified server binary, real sockets, a history that builds
the counterexample's pre-state through the public protocol, then the offending line and a set of probes.

A counterexample is *confirmed* when the real server's transcript equals the transcript the interpreter predicts for
that concrete world (the oracle has already judged that transcript / post-state a violation).  A state the planner
cannot build through the protocol, or a transcript that differs, is reported as non-reproducing (exit 2), never as a
violation.
"""
import os, re, socket, subprocess, time, json, select, signal
from .checklib import Finding
from .values import *

# ---------------------------------------------------------------------------------------------- server / clients
class Server:
    def __init__(self, exe, cfg_text, workdir, tag='srv'):
        self.port = free_port()
        self.cfg = os.path.join(workdir, f'{tag}_{self.port}.toml')
        self.errpath = os.path.join(workdir, f'{tag}_{self.port}.err')
        open(self.cfg, 'w').write(cfg_text.replace('@PORT@', str(self.port)))
        self.err = open(self.errpath, 'w')
        self.p = subprocess.Popen([exe, '-c', self.cfg], stdout=self.err, stderr=self.err, env=dict(os.environ, RUST_LOG='error', RUST_BACKTRACE='0'))
        t0 = time.time()
        while time.time() - t0 < 10:
            try:
                s = socket.create_connection(('127.0.0.1', self.port), timeout=0.3); s.close(); return
            except OSError:
                if self.p.poll() is not None: break
                time.sleep(0.05)
        raise RuntimeError('server did not start: ' + open(self.errpath).read()[-500:])
    def stderr_text(self):
        self.err.flush()
        return open(self.errpath, errors='replace').read()
    def alive(self):
        return self.p.poll() is None
    def stop(self):
        try:
            self.p.kill(); self.p.wait(timeout=5)
        except Exception:
            pass
        self.err.close()

def free_port():
    s = socket.socket(); s.bind(('127.0.0.1', 0)); p = s.getsockname()[1]; s.close(); return p

class Client:
    def __init__(self, port, name):
        self.name = name
        self.s = socket.create_connection(('127.0.0.1', port), timeout=5)
        self.buf = b''
        self.eof = False
        self.k = 0
        self.log = []
    def send(self, line):
        if self.eof: return
        try:
            self.s.sendall(line.encode('utf-8', 'surrogateescape') + b'\r\n')
        except OSError:
            self.eof = True
    def _read_lines(self, timeout):
        out = []
        end = time.time() + timeout
        while True:
            while b'\n' in self.buf:
                l, self.buf = self.buf.split(b'\n', 1)
                out.append(l.rstrip(b'\r'))
            if out or self.eof: return out
            left = end - time.time()
            if left <= 0: return out
            r, _, _ = select.select([self.s], [], [], left)
            if not r: return out
            try:
                d = self.s.recv(65536)
            except OSError:
                d = b''
            if not d:
                self.eof = True
                return out
            self.buf += d
    def barrier(self, timeout=5.0):
        """two PING/PONG round trips: everything the server queued for us before is returned (select! may answer the first PING before it
        forwards messages already queued for this connection; while the second PING travels the loop has nothing else to do but forward them)"""
        got = self._barrier1(timeout)
        if got and got[-1] in (b'<EOF>', b'<TIMEOUT>'): return got
        return got + self._barrier1(timeout)
    def _barrier1(self, timeout=5.0):
        self.k += 1
        tok = f'sync{self.k}x'
        self.send('PING ' + tok)
        got = []
        end = time.time() + timeout
        while time.time() < end:
            batch = self._read_lines(min(0.5, max(0.01, end - time.time())))
            for i, l in enumerate(batch):
                if l.endswith((':' + tok).encode()) and b' PONG ' in l:
                    # lines of this batch after the PONG go back to the buffer (they belong to the next read)
                    rest = batch[i + 1:]
                    if rest: self.buf = b''.join(x + b'\r\n' for x in rest) + self.buf
                    self.log.extend(got)
                    return got
                got.append(l)
            if self.eof: break
        got.append(b'<EOF>' if self.eof else b'<TIMEOUT>')
        self.log.extend(got)
        return got
    def close(self):
        try: self.s.close()
        except OSError: pass

# ---------------------------------------------------------------------------------------------- config
def toml_str(s):
    return '"' + s.replace('\\', '\\\\').replace('"', '\\"') + '"'

def make_config(spec, model, hashes, helper=None):
    dm = spec.default_user_modes or {}
    lines = [f'name = {toml_str(spec.server)}', 'admin_info = "admin info"', 'info = "server info"', 'listen = "127.0.0.1"', 'port = @PORT@',
             'network = "IRCnetwork"', 'motd = "Hello, world!"', f'ping_timeout = {spec.ping_timeout}', f'pong_timeout = {spec.pong_timeout}',
             'dns_lookup = false', 'log_level = "INFO"']
    if spec.password: lines.append(f'password = {toml_str(hashes[spec.password])}')
    if spec.max_connections is not None: lines.append(f'max_connections = {spec.max_connections}')
    if model.get('has_max_joins', False): lines.append(f'max_joins = {model.get("max_joins", 0)}')
    lines.append('[default_user_modes]')
    for m in ('invisible', 'oper', 'local_oper', 'registered', 'wallops'):
        lines.append(f'{m} = {"true" if dm.get(m, False) else "false"}')
    for o in spec.operators:
        lines += ['[[operators]]', f'name = {toml_str(o[0])}', f'password = {toml_str(hashes[o[1]])}']
        if o[2]: lines.append(f'mask = {toml_str(o[2])}')
    for u in spec.cfg_users:
        lines += ['[[users]]', f'name = {toml_str(u[0])}', f'nick = {toml_str(u[1])}']
        if u[2]: lines.append(f'password = {toml_str(hashes[u[2]])}')
        if u[3]: lines.append(f'mask = {toml_str(u[3])}')
    for c in spec.chans:
        if model.get(f'exists_{c}') and model.get(f'preconf_{c}'):
            lines += ['[[channels]]', f'name = {toml_str(c)}', '[channels.modes]']
            from .world import RANKS
            cfgname = {'founder': 'founders', 'protected': 'protecteds', 'operator': 'operators', 'half_oper': 'half_operators', 'voice': 'voices'}
            for r in RANKS:
                who = [n for n in spec.nicks if model.get(f'def_{r}_{n}_{c}')]
                if helper and r in ('founder', 'operator'): who = [helper] + who
                if who: lines.append(f'{cfgname[r]} = [ ' + ', '.join(toml_str(x) for x in who) + ' ]')
            lines += ['moderated = false', 'invite_only = false', 'secret = false', 'protected_topic = false', 'no_external_messages = false']
    return '\n'.join(lines) + '\n'

_HASHES = {}
def password_hash(exe, pw):
    """hash printed by the binary's own '-g -P' (argon2id)"""
    if pw not in _HASHES:
        r = subprocess.run([exe, '-g', '-P', pw], capture_output=True, text=True, timeout=60)
        m = re.search(r'Password Hash: (\S+)', r.stdout)
        if not m: raise RuntimeError('cannot generate password hash: ' + r.stdout + r.stderr)
        _HASHES[pw] = m.group(1)
    return _HASHES[pw]

# ---------------------------------------------------------------------------------------------- planner
HELPER = 'zz'
UNREG = '<conn>'      # the not (yet) registered connection under test
RANK_LETTER = {'founder': 'q', 'protected': 'a', 'operator': 'o', 'half_oper': 'h', 'voice': 'v'}
FLAG_LETTER = {'invite_only': 'i', 'moderated': 'm', 'secret': 's', 'protected_topic': 't', 'no_external_messages': 'n'}

class Unreachable(Exception):
    pass

def plan(spec, model):
    """-> list of (client, line) building the world of `model` (dict var -> value) through the protocol"""
    from .world import RANKS, CHFLAGS, UMODES
    steps = []
    nicks = [n for n in spec.nicks if model.get(f'reg_{n}', True)]
    chans = [c for c in spec.chans if model.get(f'exists_{c}')]
    need_helper = bool(chans)
    if model.get('hist_oldnick'):
        # WHOWAS history of 'oldnick': the helper used that nick before
        need_helper = True
        for _ in range(getattr(spec, 'history_len', 2)):
            steps.append((HELPER, 'NICK oldnick')); steps.append((HELPER, 'NICK ' + HELPER))
    for n in nicks:
        if model.get(f'umode_local_oper_{n}') and not (spec.default_user_modes or {}).get('local_oper'):
            raise Unreachable(f'{n} +O without default_user_modes.local_oper')
        if model.get(f'umode_registered_{n}') and not (spec.default_user_modes or {}).get('registered') and not any(u[1] == n for u in spec.cfg_users):
            raise Unreachable(f'{n} +r without configuration')
    for c in chans:
        members = [n for n in nicks if model.get(f'mem_{n}_{c}')]
        steps.append((HELPER, f'JOIN {c}'))
        for n in members: steps.append((n, f'JOIN {c}'))
        for n in members:
            for r in RANKS:
                if model.get(f'{r}_{n}_{c}'): steps.append((HELPER, f'MODE {c} +{RANK_LETTER[r]} {n}'))
        if model.get(f'hastopic_{c}'): steps.append((HELPER, f'TOPIC {c} :{spec.topic_text}'))
        # the worlds hold every list of a channel as Some(set) - possibly empty, as after +x m / -x m; a list that was never touched is None
        # in the real server.  The original code cannot tell the two apart, changed code may: build exactly the modelled state.
        for letter, key in (('b', 'ban'), ('e', 'exc'), ('I', 'invex')):
            if not any(model.get(f'{key}_{c}_{i}') for i in range(len(spec.masks))):
                steps.append((HELPER, f'MODE {c} +{letter} tmp!*@*')); steps.append((HELPER, f'MODE {c} -{letter} tmp!*@*'))
        for letter in 'ahv':
            # ('?': a refusal of this step is tolerated - changed code may deny the helper the rank it needs for it)
            steps.append((HELPER, f'?MODE {c} +{letter} {HELPER}')); steps.append((HELPER, f'?MODE {c} -{letter} {HELPER}'))
        for i, m in enumerate(spec.masks):
            if model.get(f'ban_{c}_{i}'): steps.append((HELPER, f'MODE {c} +b {m}'))
            if model.get(f'exc_{c}_{i}'): steps.append((HELPER, f'MODE {c} +e {m}'))
            if model.get(f'invex_{c}_{i}'): steps.append((HELPER, f'MODE {c} +I {m}'))
        for n in nicks:
            if model.get(f'inv_{n}_{c}'):
                if n in members: raise Unreachable(f'{n} is a member of {c} and holds an invitation to it')
                steps.append((HELPER, f'INVITE {n} {c}'))
        fl = ''.join(FLAG_LETTER[f] for f in CHFLAGS if model.get(f'{f}_{c}'))
        if fl: steps.append((HELPER, f'MODE {c} +{fl}'))
        if model.get(f'haskey_{c}'): steps.append((HELPER, f'MODE {c} +k {spec.keys[c]}'))
        if model.get(f'haslimit_{c}'): steps.append((HELPER, f'MODE {c} +l {model.get("limit_" + c, 0)}'))
        steps.append((HELPER, f'PART {c}'))
    for c in spec.chans:
        if not model.get(f'exists_{c}'):
            for n in nicks:
                if model.get(f'inv_{n}_{c}'): raise Unreachable(f'invitation to non-existing channel {c}')
    for n in nicks:
        m = ''
        if model.get(f'umode_invisible_{n}'): m += 'i'
        if model.get(f'umode_wallops_{n}'): m += 'w'
        if m: steps.append((n, f'MODE {n} +{m}'))
        # modes every user gets from [default_user_modes] and this user has dropped
        dmodes = spec.default_user_modes or {}
        rem = ''
        if dmodes.get('invisible') and not model.get(f'umode_invisible_{n}'): rem += 'i'
        if dmodes.get('wallops') and not model.get(f'umode_wallops_{n}'): rem += 'w'
        if dmodes.get('local_oper') and not model.get(f'umode_local_oper_{n}', True): rem += 'O'
        if rem: steps.append((n, f'MODE {n} -{rem}'))
        if model.get(f'umode_oper_{n}'):
            if not spec.operators: raise Unreachable(f'{n} is an operator but no operator is configured')
            steps.append((n, f'OPER {spec.operators[0][0]} {spec.operators[0][1]}'))
        if model.get(f'away_{n}'): steps.append((n, f'AWAY :{spec.away_text}'))
        if model.get(f'capneg_{n}'): steps.append((n, 'CAP LS'))        # re-opens the capability negotiation of a registered connection
    if need_helper: steps.append((HELPER, 'QUIT'))
    return nicks, need_helper, steps

# ---------------------------------------------------------------------------------------------- prediction
def predict(prog, case, model, script):
    """interpreter transcript for the concrete world `model`: script = [(client, line)] run in order.
    -> dict client -> list of regex-able predicted lines (in socket order), and outcome per step"""
    from .machine import Machine
    from .world import World, Spec
    from .models.fmt_m import DecSeg
    from . import steplib
    M = Machine(prog, timeout_ms=20000)
    M.env['select_start'] = 0
    M.env['verify'] = lambda M_, pw, hs: M_.values_equal(pw, hs)
    spec = Spec(**case.get('spec', {}))
    w = World(M, prog, spec, fixed=model)
    conns = {}
    socks = {}
    outcomes = []
    def conn_of(n):
        if n not in conns:
            if n == UNREG:
                ck = dict(case.get('conn', {}))
                conns[n] = w.add_conn(ck.pop('nick', None), key='conn', **ck); socks[n] = []
            else:
                conns[n] = w.add_conn(n); socks[n] = []
        return conns[n]
    for n in spec.nicks:
        if model.get(f'reg_{n}', True): conn_of(n)
    def drain():
        # every connection task forwards its queue to its socket, one event per loop iteration
        progress = True
        while progress:
            progress = False
            for n, c in conns.items():
                if c.get('dead'): continue
                guard = 0
                while (c['ch'].q or c['src'].items) and guard < 200:
                    guard += 1
                    before = len(c['src'].written)
                    try:
                        r = w.run_to_completion(w.start_process(c))
                    except Panic as e:
                        outcomes.append('panic: ' + str(e)); c['dead'] = True
                        from .models.tokio_m import release_all_locks
                        release_all_locks(M)
                        socks[n].extend(list(s.data) for s in c['src'].written[before:])
                        socks[n].append(None)
                        break
                    socks[n].extend(list(s.data) for s in c['src'].written[before:])
                    progress = True
                    if r == 'PENDING': break
                    q = c['quit'].cell.v.fields[0]
                    if isinstance(q, int) and q != 0:
                        # the connection task leaves its loop: teardown, as user_state_process does
                        name = prog.resolve_crate_fn('state::MainState::remove_user')
                        w.run_to_completion(M.run_fn(name, [Ref(w.main_cell), Ref(c['cell'])]))
                        c['dead'] = True
                        socks[n].append('EOF')
                        break
    for client, line in script:
        c = conn_of(client)
        if c.get('dead'): continue
        c['src'].items.append(('line', mkstring(line)))
        n0 = len(outcomes)
        drain()
        if len(outcomes) == n0: outcomes.append('ok')
    return socks, outcomes

_LISTLINE = re.compile(r'^(:\S+ (?:353|319) .*? :)(.*)$', re.S)
def canon_line(t):
    """RPL_NAMREPLY / RPL_WHOISCHANNELS list their items in hash-map order: compare them as sets"""
    m = _LISTLINE.match(t)
    if m: return m.group(1) + ' '.join(sorted(m.group(2).split(' ')))
    if ' 324 ' in t:
        tk = t.split(' ')
        # :srv 324 nick chan modes [mode params] then '+X arg' pairs of the list modes (hash-set order)
        for i in range(5, len(tk)):
            rest = tk[i:]
            if len(rest) % 2 == 0 and all(re.fullmatch(r'\+[A-Za-z]', rest[j]) for j in range(0, len(rest), 2)):
                pairs = sorted((rest[j], rest[j + 1]) for j in range(0, len(rest), 2))
                return ' '.join(tk[:i] + [x for pr in pairs for x in pr])
    return t

def line_regex(buf):
    from .models.fmt_m import DecSeg
    if all(isinstance(x, int) for x in buf):
        buf = list(canon_line(bytes(buf).decode('utf-8', 'surrogateescape')).encode('utf-8', 'surrogateescape'))
    out = []
    run = []
    def flush():
        if run:
            out.append(re.escape(bytes(run).decode('utf-8', 'surrogateescape'))); del run[:]
    for x in buf:
        if isinstance(x, int): run.append(x)
        else:
            flush(); out.append(r'\d+')
    flush()
    s = ''.join(out)
    s = re.sub(r'<(rfc2822\\ time|created|datetime)>', '.*', s)
    return s

# ---------------------------------------------------------------------------------------------- replay
DEFAULT_PROBES = True

def probes_for(spec, model, actor):
    ps = []
    nicks = [n for n in spec.nicks if model.get(f'reg_{n}', True)]
    others = [n for n in nicks if n != actor]
    if others and actor in nicks:
        ps.append((actor, f'NOTICE {others[0]} :probe'))      # shows the prefix the actor speaks under
    for n in nicks:
        for c in spec.chans:
            ps.append((n, f'NAMES {c}'))
    for c in spec.chans:
        ps.append((actor, f'MODE {c}'))
        ps.append((actor, f'TOPIC {c}'))
    ps.append((actor, 'LUSERS'))
    for n in nicks:
        ps.append((actor, f'MODE {n}') if n == actor else (n, f'MODE {n}'))
    return ps

def replay_witness(run, prog, case, witness, release=False, probes=True):
    """returns (confirmed: True/False/None, text)"""
    from .world import Spec
    spec = Spec(**case.get('spec', {}))
    model = witness['world']
    actor = witness.get('actor', spec.nicks[0])
    ck = case.get('conn', {})
    unreg = ck.get('registered', True) is False
    if unreg: actor = UNREG
    try:
        nicks, need_helper, setup = plan(spec, model)
    except Unreachable as e:
        return None, 'pre-state not reachable through the protocol: ' + str(e)
    exe = run.snap.build_server(release)
    pws = {}
    for o in spec.operators: pws[o[1]] = password_hash(exe, o[1])
    for u in spec.cfg_users:
        if u[2]: pws[u[2]] = password_hash(exe, u[2])
    if spec.password: pws[spec.password] = password_hash(exe, spec.password)
    srv = Server(exe, make_config(spec, model, pws, HELPER if need_helper else None), run.snap.dir)
    clients = {}
    try:
        if unreg:
            # build the half-registered record first (its nick may be claimed before a universe user registers under it)
            c = Client(srv.port, UNREG); clients[UNREG] = c
            if ck.get('caps_negotation'): c.send('CAP LS')
            if ck.get('password'): c.send('PASS ' + ck['password'])
            if ck.get('nick'): c.send('NICK ' + ck['nick'])
            if ck.get('name'): c.send(f'USER {ck["name"]} 0 * :Real {ck["name"]}')
            time.sleep(0.3)
            pre = c._read_lines(0.5)
            if any(b' 001 ' in l for l in pre):
                return None, 'pre-state not reachable through the protocol: the half-registered record completes registration at once'
            if c.eof:
                return None, 'pre-state not reachable through the protocol: the connection is closed while building its record'
        order = ([HELPER] if need_helper else []) + nicks
        for n in order:
            c = Client(srv.port, n); clients[n] = c
            if spec.password: c.send('PASS ' + spec.password)
            mp = bool(model.get(f'multi_prefix_{n}'))
            if mp: c.send('CAP LS'); c.send('CAP REQ :multi-prefix')
            c.send(f'NICK {n}'); c.send(f'USER {spec.uname(n)} 0 * :{spec.realname(n)}')
            if mp: c.send('CAP END')
            got = c.barrier()
            if not any(b' 001 ' in l for l in got):
                return None, f'registration of {n} failed: {got[-3:]}'
        for n, line in setup:
            optional = line.startswith('?')
            clients[n].send(line.lstrip('?'))
            got = clients[n].barrier()
            bad = [l for l in got if re.match(rb':\S+ (4\d\d|9\d\d) ', l)]
            if bad and not optional:
                return None, f'pre-state not reachable through the protocol: set-up step {line!r} by {n} is refused: {bad[0][:120]!r}'
        for n in nicks: clients[n].barrier()
        # the step and the probes
        line = witness['line']
        if unreg:
            script = [(actor, line)] + ([(n, f'WHOIS {x}') for n in nicks[:1] for x in list(spec.nicks) + [ck.get('nick') or 'dave']] + [(nicks[0], 'LUSERS')] if probes and nicks else [])
        else:
            script = [(actor, line)] + (probes_for(spec, model, actor) if probes else [])
        # commands the case runs before the step under test
        pre = []
        for ent in case.get('prelude', []) or []:
            if isinstance(ent, (tuple, list)) and len(ent) == 2 and isinstance(ent[1], str) and ent[0] != 'call': pre.append((ent[0], ent[1]))
            else: return None, 'this case has a set-up step that cannot be replayed over a socket: ' + repr(ent)[:80]
        script = pre + script
        pred, outcomes = predict(prog, case, model, script)
        native = {n: [] for n in nicks}
        if unreg: native[UNREG] = []
        for who, ln in script:
            if clients[who].eof: continue
            clients[who].send(ln)
            if who == UNREG:
                time.sleep(0.4)
                got = clients[who]._read_lines(0.6)
                if clients[who].eof: got.append(b'<EOF>')
            else:
                got = clients[who].barrier()
            native[who].extend(got)
            for n in nicks:
                if n != who and not clients[n].eof:
                    native[n].extend(clients[n].barrier(timeout=3))
        stderr = srv.stderr_text()
        panicked = 'panicked at' in stderr
        diffs = []
        for n in nicks + ([UNREG] if unreg else []):
            want = pred.get(n, [])
            have = [l for l in native[n] if not (n == UNREG and l == b'<EOF>')]
            if want and want[-1] == 'EOF':
                # the session ended by the protocol: the socket must be closed, cleanly
                want = want[:-1]
                if not (have and have[-1] == b'<EOF>') and n != UNREG:
                    diffs.append(f'{n}: predicted end of session, but the socket stays open')
                have = [l for l in have if l != b'<EOF>']
            if want and want[-1] is None:
                # predicted panic: connection must die
                if have and have[-1] == b'<EOF>' and panicked: continue
                diffs.append(f'{n}: predicted handler panic, native: {have[-2:]} panicked={panicked}')
                continue
            d = multiset_diff([line_regex(b) for b in want], [canon_line(l.decode('utf-8', 'surrogateescape')) for l in have])
            if d: diffs.append(f'{n}: ' + d)
        if any(o.startswith('panic') for o in outcomes):
            if not panicked: diffs.append('predicted panic but the server did not panic')
        elif panicked:
            m = re.search(r'panicked at ([^\n]*)', stderr)
            diffs.append('server panicked unexpectedly: ' + (m.group(1) if m else ''))
        text = json.dumps(dict(outcomes=outcomes[:3], native={n: [l.decode('utf-8', 'replace') for l in v][:10] for n, v in native.items()},
                               stderr=re.findall(r'panicked at [^\n]*', stderr)[:3]))[:2500]
        if diffs:
            return False, 'native transcript differs from the interpreter prediction: ' + '; '.join(diffs)[:1500] + ' | ' + text
        run.native_replays += 1
        return True, text
    finally:
        for c in clients.values(): c.close()
        srv.stop()

def multiset_diff(want_rx, have):
    have = list(have)
    missing = []
    for rx in want_rx:
        for i, h in enumerate(have):
            if re.fullmatch(rx, h, re.S):
                del have[i]; break
        else:
            missing.append(rx)
    if missing or have:
        return f'missing {missing[:4]} extra {have[:4]}'
    return ''

def confirm_findings(run, cands, cases_by_name=None):
    """replay every candidate natively (dev; release too when the check runs the release profile)"""
    cap = int(os.environ.get('VERIF_REPLAY_CAP', '8'))
    done = 0
    for f in sorted(cands, key=lambda f: (0 if f['site'].startswith('panic') else 1, f['site'])):
        w = f['witness']
        fi = Finding(run.prop, f['kind'], f['site'], f['what'], w, role=dict(predicate=f.get('predicate', ''), verb=str(w.get('line', '')).split(' ')[0].upper()))
        if done >= cap and any(g.confirmed for g in run.findings):
            # enough natively confirmed counterexamples for a verdict; the rest is listed without replay
            fi.confirmed = 'skipped'; fi.native = 'not replayed (replay cap reached after a confirmed violation)'
            run.notes.append(f'not replayed: {f["site"]}: {f["what"][:120]}')
            continue
        done += 1
        case = (cases_by_name or {}).get(w.get('case')) or getattr(run, 'cases_by_name', {}).get(w.get('case'))
        if case is None:
            fi.confirmed = None; fi.native = 'no case description for native replay'
            run.add_finding(fi); continue
        prof = w.get('profile', 'dev')
        # the interpreter iterates hash maps in slot order, the real server in a per-process random order: a counterexample that depends on the
        # order is genuine if SOME order shows it, so a differing transcript is retried against fresh server processes
        tries = 1 + int(os.environ.get('VERIF_REPLAY_RETRIES', '5'))
        for attempt in range(tries):
            try:
                okk, text = replay_witness(run, run.prog(prof), case, w, release=(prof == 'rel'))
            except Exception as e:
                import traceback
                okk, text = None, 'replay failed: ' + ''.join(traceback.format_exception(type(e), e, e.__traceback__))[-1200:]
            if okk is not False: break
        if okk and attempt: text = f'(reproduced at attempt {attempt + 1}: depends on hash-map iteration order or timing) ' + text
        fi.confirmed = okk; fi.native = text
        fi.replay = dict(kind='socket', case=case, witness=w, profile=prof)
        run.add_finding(fi)

def replay_file(pid, f):
    from .checklib import CheckRun
    rp = f['replay']
    run = CheckRun(pid, 'quick', 0).prepare((rp.get('profile', 'dev'),))
    okk, text = replay_witness(run, run.prog(rp.get('profile', 'dev')), rp['case'], rp['witness'], release=(rp.get('profile') == 'rel'))
    print('confirmed:', okk); print(text[:3000])
    if okk:
        print(f'VIOLATION property={pid} replay=(file)')
        return 1
    return 0 if okk is False else 2
