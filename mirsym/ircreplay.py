"""Native replay of handler-level counterexamples over real sockets against the unmodified server binary (stub)."""
from .checklib import Finding

def confirm_findings(run, cands):
    for f in cands:
        fi = Finding(run.prop, f['kind'], f['site'], f['what'], f['witness'], role=dict(predicate=f.get('predicate', '')))
        fi.confirmed = None; fi.native = 'socket replay not implemented yet'
        run.add_finding(fi)
