"""./check <ID> --replay <path>: re-run a recorded counterexample natively against the current /repo tree."""
import sys, json
from .checklib import CheckRun

def main():
    pid, path = sys.argv[1], sys.argv[2]
    f = json.load(open(path))
    rp = f.get('replay')
    if not rp:
        print('no native replay recipe in', path); sys.exit(2)
    if rp.get('kind') == 'socket':
        from . import ircreplay
        sys.exit(ircreplay.replay_file(pid, f))
    if rp.get('kind') in ('timer', 'config', 'live', 'period'):
        import importlib
        mod = importlib.import_module('props.' + pid)
        run = CheckRun(pid, 'quick', 0).prepare(('dev',))
        okk, text = mod.native_replay(run, rp)
        print('native:', text)
        if okk:
            print(f'VIOLATION property={pid} replay={path}'); sys.exit(1)
        sys.exit(0 if okk is False else 2)
    run = CheckRun(pid, 'quick', 0).prepare(())
    outs = run.native_calls([(rp['function'], [bytes.fromhex(a) for a in rp['args']])], release=(rp.get('profile') == 'rel'))
    status, payload = outs[0]
    print('native:', status, payload.decode('utf-8', 'replace'))
    print('recorded:', f.get('native'))
    if (status + ': ' + payload.decode('utf-8', 'replace')) == f.get('native'):
        print(f'VIOLATION property={pid} replay={path}'); sys.exit(1)
    sys.exit(0)
main()
