"""Path exploration (DART-style re-execution) and the parallel case runner."""
import time, os, sys, traceback, multiprocessing as mp
import z3
from .values import *
from .machine import Machine

class PathResult:
    __slots__ = ('kind', 'value', 'M', 'extra')
    def __init__(self, kind, value, M, extra=None):
        self.kind, self.value, self.M, self.extra = kind, value, M, extra

class Stats:
    def __init__(self):
        self.paths = 0; self.panics = 0; self.gaps = 0; self.infeasible = 0; self.bound = 0
        self.solver_calls = 0; self.solver_time = 0.0; self.steps = 0; self.branches = 0
        self.obligations = 0; self.discharged = 0
        self.touched = set(); self.models = set()
        self.gap_msgs = {}
        self.wall = 0.0
    def absorb(self, M):
        self.solver_calls += M.solver_calls; self.solver_time += M.solver_time
        self.steps += M.steps; self.branches += sum(1 for d in M.decisions[:M.pos])
        self.touched |= M.touched; self.models |= M.models_used
    def merge(self, o):
        for k in ('paths', 'panics', 'gaps', 'infeasible', 'bound', 'solver_calls', 'solver_time', 'steps', 'branches', 'obligations', 'discharged', 'wall'):
            setattr(self, k, getattr(self, k) + getattr(o, k))
        self.touched |= o.touched; self.models |= o.models
        for k, v in o.gap_msgs.items(): self.gap_msgs[k] = self.gap_msgs.get(k, 0) + v
    def to_dict(self):
        return dict(paths=self.paths, panics=self.panics, gaps=self.gaps, infeasible=self.infeasible, bound_exceeded=self.bound,
                    solver_calls=self.solver_calls, solver_time_s=round(self.solver_time, 3), mir_steps=self.steps,
                    decided_branches=self.branches, obligations=self.obligations, discharged=self.discharged,
                    gap_messages=dict(list(self.gap_msgs.items())[:20]))

def explore(prog, run_path, on_path, max_paths=200000, timeout_ms=10000, max_steps=2_000_000, seed=0, deadline=None, stats=None,
            prefix=None):
    """run_path(M) executes one path and returns a value; on_path(PathResult) judges it (may raise to abort).
    Returns Stats.  `prefix` fixes the first decisions (used by the parallel splitter)."""
    st = stats or Stats()
    decisions = [list(d) for d in prefix] if prefix else []
    fixed = len(decisions)
    t0 = time.time()
    while True:
        M = Machine(prog, decisions, timeout_ms=timeout_ms, max_steps=max_steps, seed=seed)
        kind, val = 'ok', None
        try:
            val = run_path(M)
        except Panic as e:
            kind, val = 'panic', e
        except Infeasible:
            kind = 'infeasible'
        except PathAbort:
            kind = 'abort'
        except EncoderGap as e:
            kind, val = 'gap', e
        except BoundExceeded as e:
            kind, val = 'bound', e
        except RecursionError as e:
            kind, val = 'bound', BoundExceeded('python recursion limit')
        if fixed and kind != 'infeasible' and kind != 'abort':
            # decisions of a forced prefix are followed without a feasibility test: a path that ended before the next solver-decided branch
            # may have an unsatisfiable path condition
            try:
                if M.solver.check() != z3.sat: kind = 'infeasible'
            except Exception:
                pass
        st.absorb(M)
        if kind == 'infeasible':
            st.infeasible += 1
        elif kind == 'abort':
            pass
        else:
            st.paths += 1
            if kind == 'panic': st.panics += 1
            elif kind == 'gap':
                st.gaps += 1
                k = str(val)[:200]; st.gap_msgs[k] = st.gap_msgs.get(k, 0) + 1
            elif kind == 'bound':
                st.bound += 1
                k = str(val)[:200]; st.gap_msgs[k] = st.gap_msgs.get(k, 0) + 1
            on_path(PathResult(kind, val, M))
        decisions = M.decisions[:M.pos] if kind in ('infeasible',) and M.pos < len(M.decisions) else M.decisions
        # backtrack: flip the last decision that still has an unexplored alternative
        while len(decisions) > fixed and not decisions[-1][1]:
            decisions.pop()
        if len(decisions) <= fixed:
            break
        last = decisions[-1]
        decisions[-1] = [not last[0], False]
        if st.paths >= max_paths:
            st.bound += 1
            st.gap_msgs['max_paths reached'] = 1
            break
        if deadline and time.time() > deadline:
            st.bound += 1
            st.gap_msgs['time budget reached'] = 1
            break
    st.wall += time.time() - t0
    return st

def model_of(M, extra=None):
    """concrete model of the path condition (plus extra constraint)"""
    M.solver.push()
    if extra is not None: M.solver.add(extra)
    r = M.solver.check()
    md = M.solver.model() if r == z3.sat else None
    M.solver.pop()
    return md

def check_valid(M, ob, stats=None):
    """is `ob` implied by the path condition?  -> (True, None) | (False, model) ; unknown raises EncoderGap"""
    if stats is not None: stats.obligations += 1
    if isinstance(ob, bool):
        if ob:
            if stats is not None: stats.discharged += 1
            return True, None
        return False, model_of(M)
    ob = z3.simplify(ob)
    if z3.is_true(ob):
        if stats is not None: stats.discharged += 1
        return True, None
    t = time.time()
    M.solver.push(); M.solver.add(z3.Not(ob))
    r = M.solver.check()
    M.solver_calls += 1; M.solver_time += time.time() - t
    if stats is not None:
        stats.solver_calls += 1; stats.solver_time += time.time() - t
    if r == z3.unsat:
        M.solver.pop()
        if stats is not None: stats.discharged += 1
        return True, None
    if r == z3.unknown:
        M.solver.pop()
        raise EncoderGap('solver unknown on obligation')
    md = M.solver.model()
    M.solver.pop()
    return False, md

# ---------------------------------------------------------------------------------------------- parallel cases
_G = {}

def _worker(arg):
    idx, case = arg
    fn = _G['fn']
    try:
        return idx, fn(case), None
    except Exception as e:
        return idx, None, ''.join(traceback.format_exception(type(e), e, e.__traceback__))[-3000:]

def run_cases(fn, cases, jobs=None):
    """fn(case) -> picklable result; cases run in forked workers (the parsed program is inherited)"""
    jobs = jobs or min(len(cases), int(os.environ.get('VERIF_JOBS', '16')))
    if jobs <= 1 or len(cases) <= 1:
        out = []
        for i, c in enumerate(cases):
            out.append(_worker_direct(fn, i, c))
        return out
    _G['fn'] = fn
    ctx = mp.get_context('fork')
    with ctx.Pool(jobs) as pool:
        res = pool.map(_worker, list(enumerate(cases)), chunksize=1)
    res.sort(key=lambda r: r[0])
    return res

def _worker_direct(fn, i, c):
    try:
        return i, fn(c), None
    except Exception as e:
        return i, None, ''.join(traceback.format_exception(type(e), e, e.__traceback__))[-3000:]
