"""The MIR interpreter: concrete where values are concrete, symbolic (z3) where they are not.

One Machine executes one path (DART style): `decisions` is the vector of branch choices; every symbolic
branch asks the solver which sides are feasible.  explore.py flips the last open decision and re-executes.
"""
import re, os, sys
import z3
from .mir import (parse_fn, strip_generics, strip_all_generics, split_top, find_top, Place, MirParseError)
from .values import *

INT_W = {'u8': 8, 'u16': 16, 'u32': 32, 'u64': 64, 'usize': 64, 'u128': 128,
         'i8': 8, 'i16': 16, 'i32': 32, 'i64': 64, 'isize': 64, 'i128': 128, 'char': 32}
SIGNED = {'i8', 'i16', 'i32', 'i64', 'isize', 'i128'}

STD_ENUMS = {
    'Option': ['None', 'Some'], 'Result': ['Ok', 'Err'], 'Poll': ['Ready', 'Pending'],
    'ControlFlow': ['Continue', 'Break'], 'Ordering': ['Less', 'Equal', 'Greater'],
    'Cow': ['Borrowed', 'Owned'], 'LinesCodecError': ['MaxLineLengthExceeded', 'Io'],
    'IpAddr': ['V4', 'V6'], 'Bound': ['Included', 'Excluded', 'Unbounded'],
    'TryRecvError': ['Empty', 'Disconnected'], 'Entry': ['Occupied', 'Vacant'],
}
STD_DISCR = {'Ordering': [-1, 0, 1]}

def type_head(ty):
    """last path segment of a type without references, lifetimes and generic arguments"""
    t = ty.strip()
    while True:
        if t.startswith('&'):
            t = t[1:].lstrip()
            if t.startswith("'"):
                k = t.find(' ')
                t = t[k + 1:] if k >= 0 else t
            if t.startswith('mut '): t = t[4:]
            continue
        if t.startswith('*const '): t = t[7:]; continue
        if t.startswith('*mut '): t = t[5:]; continue
        if t.startswith('dyn '): t = t[4:]; continue
        break
    if t.startswith(('{', '[', '(')):
        return t
    t = strip_all_generics(t)
    return t.split('::')[-1].strip()

def deref_type(ty):
    t = ty.strip()
    if t.startswith('&'):
        t = t[1:].lstrip()
        if t.startswith("'"):
            k = t.find(' ')
            t = t[k + 1:] if k >= 0 else t
        if t.startswith('mut '): t = t[4:]
        return t
    for p in ('*const ', '*mut '):
        if t.startswith(p): return t[len(p):]
    m = re.match(r'(?:std|alloc)::(?:boxed::Box|sync::Arc|rc::Rc)<(.*)>$', t)
    if m:
        return split_top(m.group(1))[0]
    return None

# ---------------------------------------------------------------------------------------------- program
class Program:
    """everything static about one MIR dump: functions, resolver indexes, enum/struct tables from source"""
    def __init__(self, fns, src_root, allocs=None):
        self.fns = fns
        self.src_root = src_root.rstrip('/') + '/'
        self.allocs = allocs or {}
        self._src = {}
        self.impl_index = {}      # (type head, trait head|None, method) -> [fn names]
        self.closure_index = {}   # '{closure@span}' -> fn name
        self.coroutine_index = {} # span -> fn name
        self.enums = dict(STD_ENUMS)
        self.enum_discr = dict(STD_DISCR)
        self.structs = {}         # name -> [field names]
        self.struct_field_types = {}   # (struct, field) -> declared type text
        self.enum_fields = {}     # (enum, variant) -> [field names] for struct-like variants
        self.resolve_cache = {}
        self.const_cache = {}
        self.adt_cache = {}
        self.pconst_cache = {}
        self._index()
        self._parse_source_types()

    # source access -------------------------------------------------------------------------
    def src_lines(self, f):
        if f not in self._src:
            p = f if f.startswith('/') else self.src_root + f
            try:
                self._src[f] = open(p, errors='replace').read().split('\n')
            except OSError:
                self._src[f] = []
        return self._src[f]

    def impl_header(self, span):
        m = re.match(r'(.*?):(\d+):(\d+): (\d+):(\d+)', span)
        if not m: return None, None
        f, l1, c1, l2, c2 = m.group(1), int(m.group(2)), int(m.group(3)), int(m.group(4)), int(m.group(5))
        lines = self.src_lines(f)
        if l1 - 1 >= len(lines): return None, None
        txt = lines[l1 - 1][c1 - 1:] if l1 != l2 else lines[l1 - 1][c1 - 1:c2 - 1]
        if l1 != l2:
            # header may span lines: join until '{'
            k = l1
            while '{' not in txt and k < min(l2, len(lines)):
                txt += ' ' + lines[k].strip(); k += 1
        last = lambda s: re.sub(r'<.*', '', s.strip()).split('::')[-1].strip(' {')
        if txt.startswith('impl'):
            txt = txt.split('{')[0]
            txt = re.sub(r'\bwhere\b.*', '', txt)
            txt = _strip_impl_generics(txt)
            mm = re.match(r'(.*?) for (.*)', txt)
            tr, ty = (mm.group(1), mm.group(2)) if mm else (None, txt)
            return last(ty), (last(tr) if tr else None)
        # derive: the span covers the trait name; the type is the next struct/enum item
        tr = txt.strip()
        for k in range(l1 - 1, min(l1 + 40, len(lines))):
            mm = re.search(r'\b(struct|enum)\s+(\w+)', lines[k])
            if mm: return mm.group(2), last(tr)
        return None, last(tr)

    def _index(self):
        for name, fn in self.fns.items():
            m = re.match(r'(.*?)<impl at ([^>]*)>::([\w]+)$', name)
            if m:
                ty, tr = self.impl_header(m.group(2))
                if ty is None or '$' in (ty or ''):
                    # macro generated impl: take Self from the first parameter type
                    pm = re.match(r'^fn .*?\(_1: ([^,)]*(?:<.*?>)?)', fn.sig)
                    ty2 = None
                    if fn.kind == 'fn':
                        i = fn.sig.find('(_1: ')
                        if i >= 0:
                            j = find_top(fn.sig, i + 5, ',)')
                            ty2 = type_head(fn.sig[i + 5:j])
                    ty = ty2 or ty
                self.impl_index.setdefault((ty, tr, m.group(3)), []).append(name)
                self.impl_index.setdefault((ty, '*', m.group(3)), []).append(name)
            if fn.kind == 'fn' and '{closure#' in name:
                i = fn.sig.find('(_1: ')
                if i >= 0:
                    j = find_top(fn.sig, i + 5, ',)')
                    pty = fn.sig[i + 5:j]
                    mm = re.search(r'\{closure@[^}]*\}', pty)
                    if mm and not pty.startswith('std::pin::Pin'):
                        self.closure_index.setdefault(mm.group(0), []).append(name)
                    elif pty.startswith('std::pin::Pin'):
                        # coroutine: key by the span of the return place
                        for raw in fn.raw or []:
                            if 'let mut _0' in raw:
                                ms = re.search(r'return place in scope \d+ at (.*)$', raw.rstrip())
                                if ms: self.coroutine_index.setdefault(ms.group(1).strip(), name)
                                break

    def _parse_source_types(self):
        root = self.src_root + 'src'
        for dp, _, fs in os.walk(root):
            for f in sorted(fs):
                if not f.endswith('.rs'): continue
                txt = open(os.path.join(dp, f), errors='replace').read()
                txt_nc = re.sub(r'//[^\n]*', '', txt)
                for m in re.finditer(r'\benum\s+(\w+)[^{;(]*\{', txt_nc):
                    body, _ = _balanced(txt_nc, m.end() - 1)
                    names, discr, vfields = [], [], {}
                    is_flags_macro = bool(re.match(r'\benum\s+\w+\s*:', m.group(0)))   # flagset::flags! syntax: values are flag bits, not discriminants
                    is_const_table = '#[const_table]' in txt_nc[max(0, m.start() - 200):m.start()]   # first item declares the row struct, not a variant
                    for item in _split_items(body):
                        if _cfg_disabled(item): continue
                        item = re.sub(r'#\[[^\]]*\]', '', item).strip()
                        mm = re.match(r'(\w+)', item)
                        if not mm: continue
                        vn = mm.group(1)
                        rest = item[mm.end():].strip()
                        names.append(vn)
                        d = None
                        if rest.startswith('{'):
                            fb, k = _balanced(rest, 0)
                            vfields[vn] = [re.match(r'(?:pub(?:\([^)]*\))?\s+)?(\w+)', x.strip()).group(1)
                                           for x in _split_items(fb) if x.strip()]
                            rest = rest[k:].strip()
                        elif rest.startswith('('):
                            _, k = _balanced(rest, 0)
                            rest = rest[k:].strip()
                        if rest.startswith('='):
                            try: d = int(rest[1:].strip().replace('_', ''), 0)
                            except ValueError: d = None
                        discr.append(d)
                    name = m.group(1)
                    if is_const_table and names:
                        names = names[1:]; discr = [None] * len(names)
                    if name not in self.enums:
                        self.enums[name] = names
                        for vn, fl in vfields.items(): self.enum_fields[(name, vn)] = fl
                        if is_flags_macro:
                            self.flag_bits = getattr(self, 'flag_bits', {})
                            self.flag_bits[name] = discr
                        elif any(d is not None for d in discr):
                            out = []; cur = -1
                            for d in discr:
                                cur = d if d is not None else cur + 1
                                out.append(cur)
                            self.enum_discr[name] = out
                for m in re.finditer(r'\bstruct\s+(\w+)[^{;(]*\{', txt_nc):
                    body, _ = _balanced(txt_nc, m.end() - 1)
                    fields = []
                    for item in _split_items(body):
                        if _cfg_disabled(item): continue
                        item = re.sub(r'#\[[^\]]*\]', '', item).strip()
                        mm = re.match(r'(?:pub(?:\([^)]*\))?\s+)?(\w+)\s*:\s*(.*)', item, re.S)
                        if mm:
                            fields.append(mm.group(1))
                            self.struct_field_types.setdefault((m.group(1), mm.group(1)), mm.group(2).strip())
                    self.structs.setdefault(m.group(1), fields)

    # callee resolution ------------------------------------------------------------------------
    def resolve_crate_fn(self, callee):
        """name of the crate function a callee path denotes, or None"""
        if callee in self.fns and self.fns[callee].kind == 'fn':
            return callee
        if callee.startswith('<'):
            j = find_top(callee, 1, '>')
            inner = callee[1:j]
            rest = callee[j + 1:]
            mm = re.match(r'::(\w+)', rest)
            if not mm: return None
            meth = mm.group(1)
            k = _find_as_top(inner)
            if k >= 0:
                ty, tr = type_head(inner[:k]), type_head(inner[k + 4:])
                r = self.impl_index.get((ty, tr, meth))
                if r: return r[0]
                # attribute-macro generated impls: the impl span is the attribute, the trait name is not recoverable
                r = [n for n in self.impl_index.get((ty, '*', meth), []) if self._macro_impl(n)]
                if len(r) == 1: return r[0]
                # derive macros generating several trait impls under one span (Validate / ValidateArgs): unique method name on the type
                r = sorted(set(self.impl_index.get((ty, '*', meth), [])))
                if len(r) == 1 and tr not in ('Clone', 'PartialEq', 'Debug', 'Default', 'Display', 'Deref', 'From', 'Into', 'Iterator', 'Drop', 'ToString'):
                    return r[0]
                return None
            ty = type_head(inner)
            r = self.impl_index.get((ty, None, meth))
            return r[0] if r else None
        c2 = strip_generics(callee)
        if c2 in self.fns and self.fns[c2].kind == 'fn':
            return c2
        m = re.match(r'(.*)::<impl (.*?)>::(\w+)((?:::\{closure#\d+\})*)$', c2)
        if m:
            inner = m.group(2)
            k = inner.find(' for ')
            if k >= 0:
                tr, ty = type_head(inner[:k]), type_head(inner[k + 5:])
            else:
                tr, ty = None, type_head(inner)
            r = self.impl_index.get((ty, tr, m.group(3)))
            if r: return r[0] + m.group(4)
            return None
        parts = _split_path(c2)
        if len(parts) >= 2:
            r = self.impl_index.get((parts[-2], None, parts[-1]))
            if r:
                return r[0]
            r = [n for n in self.impl_index.get((parts[-2], '*', parts[-1]), []) if self._macro_impl(n)]
            if len(r) == 1: return r[0]
        return None

    def _macro_impl(self, name):
        m = re.match(r'(.*?)<impl at ([^>]*)>::', name)
        if not m: return False
        ty, tr = self.impl_header(m.group(2))
        return tr is not None and (tr.startswith('#') or not re.fullmatch(r'\w+', tr))

    def fn_of_closure(self, ident, creator=None, args=None, machine=None):
        c = self.closure_index.get(ident)
        if not c: return None
        if len(c) == 1 or creator is None: return c[0]
        best = [n for n in c if n.startswith(creator + '::{closure#')]
        if len(best) > 1 and args and machine is not None:
            # several closures of one function share a macro span: tell them apart by the type of the first argument
            a0 = machine.rdd(args[0]) if isinstance(args[0], (Ref, BoxV)) else args[0]
            if isinstance(a0, Adt):
                for n in best:
                    f = self.fns[n]
                    if not f.parsed: parse_fn(f)
                    if type_head(f.types.get(2, '')) == a0.name: return n
        if best: return best[0]
        # closures created inside closures of the creator
        best = [n for n in c if n.startswith(creator.split('::{closure#')[0])]
        return best[0] if best else c[0]

    def fn_of_coroutine(self, ident, creator):
        m = re.match(r'\{coroutine@(.*?)( \(#\d+\))?\}$', ident)
        if m:
            r = self.coroutine_index.get(m.group(1))
            if r: return r
        c = creator + '::{closure#0}'
        return c if c in self.fns else None

    def variant_index(self, enum, vname):
        vs = self.enums.get(enum)
        if vs and vname in vs:
            return vs.index(vname)
        return None

    def discr_value(self, adt):
        t = self.enum_discr.get(adt.name)
        if t is not None and isinstance(adt.variant, int):
            return t[adt.variant]
        return adt.variant

    def struct_field(self, struct, fname):
        return self.structs[struct].index(fname)

def _cfg_disabled(item):
    """item carries a #[cfg(...)] that is off in the default-feature build the MIR is dumped from"""
    for m in re.finditer(r'#\[cfg\((.*?)\)\]', item, re.S):
        c = m.group(1).strip()
        if c.startswith('not('): continue
        if c.startswith('any(') or c.startswith('all(') or c.startswith('feature'):
            if 'feature' in c and 'not(' not in c: return True
        if c == 'test': return True
    return False

def _strip_impl_generics(txt):
    txt = txt.strip()
    assert txt.startswith('impl')
    t = txt[4:].lstrip()
    if t.startswith('<'):
        d = 0
        for i, ch in enumerate(t):
            if ch == '<': d += 1
            elif ch == '>' and t[i - 1] != '-':
                d -= 1
                if d == 0:
                    t = t[i + 1:]; break
    return t.strip()

def _find_as_top(s):
    d = 0
    for i, ch in enumerate(s):
        if ch in '<([{': d += 1
        elif ch in ')]}' or (ch == '>' and s[i - 1] not in '-='): d -= 1
        elif d == 0 and s.startswith(' as ', i): return i
    return -1

def _split_path(c):
    out = []; d = 0; cur = ''
    i = 0
    while i < len(c):
        ch = c[i]
        if ch in '<([{': d += 1
        elif ch in ')]}' or (ch == '>' and c[i - 1] not in '-='): d -= 1
        if d == 0 and c.startswith('::', i):
            out.append(cur); cur = ''; i += 2; continue
        cur += ch; i += 1
    out.append(cur)
    return out

def _balanced(txt, i):
    """txt[i] is an opener; return (inner text, index after closer)"""
    op = txt[i]; cl = {'{': '}', '(': ')', '[': ']'}[op]
    d = 0; j = i
    while j < len(txt):
        if txt[j] == op: d += 1
        elif txt[j] == cl:
            d -= 1
            if d == 0: return txt[i + 1:j], j + 1
        j += 1
    return txt[i + 1:], len(txt)

def _split_items(body):
    out = []; d = 0; cur = ''
    for ch in body:
        if ch in '{([<': d += 1
        elif ch in '})]>': d -= 1
        if ch == ',' and d <= 0:
            out.append(cur); cur = ''; d = 0
        else: cur += ch
    if cur.strip(): out.append(cur)
    return out

# ---------------------------------------------------------------------------------------------- machine
class Frame:
    __slots__ = ('fn', 'locs')
    def __init__(self, fn, locs):
        self.fn, self.locs = fn, locs

class Machine:
    def __init__(self, prog, decisions=None, timeout_ms=10000, max_steps=2_000_000, seed=0):
        self.prog = prog
        self.solver = z3.Solver()
        self.solver.set('timeout', timeout_ms)
        if seed:
            self.solver.set('random_seed', seed & 0x7fffffff)
        self.decisions = decisions if decisions is not None else []
        self.pos = 0
        self.steps = 0
        self.max_steps = max_steps
        self.solver_calls = 0
        self.solver_time = 0.0
        self.depth = 0
        self.max_depth = 200
        self.env = {}                 # model state (clock, scheduler, ...)
        self.touched = set()          # crate functions executed on this path
        self.models_used = set()
        self.assumptions = []         # z3 constraints added by harness (also in solver)
        self.trace = None
        self.fresh = 0
        self.stack = []

    # solver ---------------------------------------------------------------------------------
    def assume(self, c):
        if isinstance(c, bool):
            if not c: raise Infeasible()
            return
        self.solver.add(c)
        self.assumptions.append(c)

    def feasible(self, c):
        import time
        t = time.time()
        self.solver.push(); self.solver.add(c)
        r = self.solver.check()
        self.solver.pop()
        self.solver_calls += 1
        self.solver_time += time.time() - t
        if r == z3.unknown:
            raise EncoderGap('solver returned unknown: ' + self.solver.reason_unknown())
        return r == z3.sat

    def branch(self, cond):
        """decide a (possibly symbolic) boolean on this path"""
        if isinstance(cond, bool):
            return cond
        cond = z3.simplify(cond)
        if z3.is_true(cond): return True
        if z3.is_false(cond): return False
        if self.pos >= len(self.decisions):
            t = self.feasible(cond)
            f = self.feasible(z3.Not(cond))
            if t and f: self.decisions.append([True, True])
            elif t: self.decisions.append([True, False])
            elif f: self.decisions.append([False, False])
            else: raise Infeasible()
        d = self.decisions[self.pos][0]
        self.pos += 1
        self.solver.add(cond if d else z3.Not(cond))
        return d

    def choose(self, n, label=''):
        """nondeterministic choice among n alternatives (environment nondeterminism): explored exhaustively"""
        forced = self.env.get('forced_choices')
        if forced and forced.get(label):
            # the parallel splitter fixes the first occurrence(s) of this choice per sub-case (all values together cover every alternative)
            v = forced[label].pop(0)
            if v >= n: raise Infeasible()
            return v
        for k in range(n - 1):
            b = z3.Bool(f'choice!{label}!{self.fresh}!{k}')
            self.fresh += 1
            if self.branch(b): return k
        return n - 1

    def concretize(self, v, candidates=None, ty='usize'):
        """turn a symbolic integer into a concrete one by branching over its feasible values"""
        if not is_sym(v):
            return v
        v = z3.simplify(v)
        if z3.is_bv_value(v):
            return v.as_long()
        if candidates is not None:
            for c in candidates:
                if self.branch(v == c): return c
            raise Infeasible()
        raise EncoderGap('symbolic integer needs a concrete value and no candidate range is known')

    def branch_forced(self, cond):
        d = self.decisions[self.pos][0]
        self.pos += 1
        self.solver.add(cond if d else z3.Not(cond))
        return d

    def fresh_bv(self, name, w):
        self.fresh += 1
        return z3.BitVec(f'{name}!{self.fresh}', w)

    def fresh_bool(self, name):
        self.fresh += 1
        return z3.Bool(f'{name}!{self.fresh}')

    # memory -----------------------------------------------------------------------------------
    def load(self, cell, path):
        v = cell.v
        variant = None
        for p in path:
            if p.__class__ is int:
                if isinstance(v, Adt):
                    v = v.fields[p]
                elif isinstance(v, Coroutine):
                    if variant is not None:
                        v = v.saved[(variant, p)]
                    else:
                        v = v.up[p]
                elif isinstance(v, (Tup, list)):
                    v = v[p]
                elif isinstance(v, Closure):
                    v = v.fields[p]
                elif isinstance(v, (Ref, BoxV)):
                    # field of a pointer-like wrapper (Box<T>.0 = Unique<T>, NonNull<T>.pointer ...) - the pointer itself
                    pass
                elif isinstance(v, Str) or isinstance(v, Slice):
                    # fat pointer decomposition: .0 pointer, .1 len
                    v = v if p == 0 else len(v)
                else:
                    raise EncoderGap(f'field {p} of {type(v).__name__} {v!r}')
                variant = None
            elif p[0] == 'dc':
                if isinstance(v, Coroutine) and p[1].startswith('variant#'):
                    variant = int(p[1][8:])
                elif isinstance(v, Coroutine):
                    variant = {'Unresumed': 0, 'Returned': 1, 'Panicked': 2}.get(p[1], None)
                else:
                    variant = None
            elif p[0] == 'ix':
                v = self.index_value(v, p[1])
            else:
                raise EncoderGap(f'path step {p}')
        return v

    def index_value(self, v, i):
        if isinstance(v, Str):
            if i >= len(v): raise Panic(f'index out of bounds: the len is {len(v)} but the index is {i}')
            return v.buf[v.s + i]
        if isinstance(v, (Tup, list)):
            if i >= len(v): raise Panic(f'index out of bounds: the len is {len(v)} but the index is {i}')
            return v[i]
        if isinstance(v, VecV):
            if i >= len(v.items): raise Panic(f'index out of bounds: the len is {len(v.items)} but the index is {i}')
            return v.items[i].v
        if isinstance(v, Slice):
            if i >= len(v): raise Panic(f'index out of bounds: the len is {len(v)} but the index is {i}')
            return v.items[v.s + i].v
        raise EncoderGap(f'index into {type(v).__name__}')

    def store(self, cell, path, val):
        if not path:
            cell.v = val
            return
        if cell.v is None and path[0].__class__ is int:
            cell.v = Tup()          # aggregate initialised field by field
        v = cell.v
        variant = None
        for p in path[:-1]:
            if p.__class__ is int:
                if isinstance(v, (Tup, list)) and (len(v) <= p or v[p] is None):
                    while len(v) <= p: v.append(None)
                    v[p] = Tup()
                if isinstance(v, Adt): v = v.fields[p]
                elif isinstance(v, Coroutine):
                    v = v.saved[(variant, p)] if variant is not None else v.up[p]
                elif isinstance(v, (Tup, list)): v = v[p]
                elif isinstance(v, Closure): v = v.fields[p]
                else: raise EncoderGap(f'store through field {p} of {type(v).__name__}')
                variant = None
            elif p[0] == 'dc':
                if isinstance(v, Coroutine) and p[1].startswith('variant#'): variant = int(p[1][8:])
                else: variant = None
            elif p[0] == 'ix':
                if isinstance(v, (Tup, list)): v = v[p[1]]
                else: raise EncoderGap('store through index of ' + type(v).__name__)
        p = path[-1]
        if p.__class__ is int:
            if isinstance(v, Adt):
                while len(v.fields) <= p: v.fields.append(None)
                v.fields[p] = val
            elif isinstance(v, Coroutine):
                if variant is not None: v.saved[(variant, p)] = val
                else:
                    while len(v.up) <= p: v.up.append(None)
                    v.up[p] = val
            elif isinstance(v, (Tup, list)):
                while len(v) <= p: v.append(None)
                v[p] = val
            elif isinstance(v, Closure): v.fields[p] = val
            elif v is None:
                raise EncoderGap('store into field of uninitialised aggregate')
            else: raise EncoderGap(f'store field {p} of {type(v).__name__}')
        elif p[0] == 'ix':
            if isinstance(v, (Tup, list)): v[p[1]] = val
            elif isinstance(v, Str): v.buf[v.s + p[1]] = val
            else: raise EncoderGap('store index of ' + type(v).__name__)
        else:
            raise EncoderGap(f'store path {p}')

    def rd(self, r):
        """read through a Ref (one level)"""
        if isinstance(r, Ref): return self.load(r.cell, r.path)
        if isinstance(r, BoxV): return r.cell.v
        return r

    def rdd(self, r):
        """read through any number of reference levels"""
        while isinstance(r, (Ref, BoxV)):
            r = self.load(r.cell, r.path) if isinstance(r, Ref) else r.cell.v
        return r

    def eval_place(self, place, locs, create=False):
        cell = locs.get(place.local)
        if cell is None:
            cell = locs[place.local] = Cell()
        path = ()
        for pj in place.proj:
            k = pj[0]
            if k == 'field':
                path = path + (pj[1],)
            elif k == 'deref':
                v = self.load(cell, path)
                if isinstance(v, Ref):
                    cell, path = v.cell, v.path
                elif isinstance(v, BoxV):
                    cell, path = v.cell, ()
                elif isinstance(v, Adt) and v.name in ('Pin', 'ManuallyDrop', 'NonNull', 'Unique') and v.fields and isinstance(v.fields[0], (Ref, BoxV)):
                    r = v.fields[0]
                    cell, path = (r.cell, r.path) if isinstance(r, Ref) else (r.cell, ())
                elif v is None:
                    raise EncoderGap('deref of uninitialised value')
                else:
                    cell, path = Cell(v), ()     # fat pointers (&str, &[T]) deref to themselves
            elif k == 'downcast':
                path = path + (('dc', pj[1]),)
            elif k == 'index':
                i = locs[pj[1]].v
                v = self.load(cell, path)
                i = self.concretize(i, range(self.len_of(v)))
                if isinstance(v, VecV):
                    if i >= len(v.items): raise Panic(f'index out of bounds: the len is {len(v.items)} but the index is {i}')
                    cell, path = v.items[i], ()
                elif isinstance(v, Slice):
                    if i >= len(v): raise Panic(f'index out of bounds: the len is {len(v)} but the index is {i}')
                    cell, path = v.items[v.s + i], ()
                else:
                    path = path + (('ix', i),)
            elif k == 'constindex':
                v = self.load(cell, path)
                i = pj[1]
                if pj[2]: i = self.len_of(v) - i
                if isinstance(v, VecV): cell, path = v.items[i], ()
                elif isinstance(v, Slice): cell, path = v.items[v.s + i], ()
                else: path = path + (('ix', i),)
            else:
                raise EncoderGap('projection ' + k)
        return cell, path

    def len_of(self, v):
        if isinstance(v, (Str, Slice, Tup, list)): return len(v)
        if isinstance(v, VecV): return len(v.items)
        if isinstance(v, StringV): return len(v.data)
        raise EncoderGap('len of ' + type(v).__name__)

    # operands / consts -------------------------------------------------------------------------
    def operand(self, op, fr):
        k = op[0]
        if k == 'copy':
            pl = op[1]
            if not pl.proj:
                c = fr.locs.get(pl.local)
                v = c.v if c is not None else None
            else:
                cell, path = self.eval_place(pl, fr.locs)
                v = self.load(cell, path)
            if v.__class__ is Adt or v.__class__ is Tup:
                return shallow_copy(v)
            return v
        if k == 'move':
            pl = op[1]
            if not pl.proj:
                c = fr.locs.get(pl.local)
                return c.v if c is not None else None
            cell, path = self.eval_place(pl, fr.locs)
            return self.load(cell, path)
        if k == 'const':
            return self.const(op[1], fr)
        if k == 'fnref':
            return FnItem(op[1])
        raise EncoderGap('operand ' + repr(op))

    def const(self, s, fr):
        c = s[0]
        if c == 't' and s == 'true': return True
        if c == 'f' and s == 'false': return False
        if s == '()': return Tup()
        m = _INT_RE.fullmatch(s)
        if m:
            return int(m.group(1))
        if c == "'":
            return ord(_unescape(s[1:-1]))
        if c == '"':
            return Str(list(_unescape(s[1:-1]).encode('utf-8', 'surrogateescape')))
        if c == 'b' and s[1:2] == '"':
            return Str(list(_unescape_bytes(s[2:-1])))
        if c == 'b' and s[1:2] == "'":
            return _unescape_bytes(s[2:-1])[0]
        m = _FLOAT_RE.fullmatch(s)
        if m:
            return Opaque('float', float(m.group(1)))
        if s.startswith('ZeroSized: '):
            t = s[11:]
            if t.startswith('{closure@'):
                c = Closure(t, [])
                c.creator = fr.fn.name if fr is not None else None
                return c
            if t.startswith(('fn(', 'for<')) or ' {' in t:
                mm = re.search(r'\{(.*)\}$', t)
                return FnItem(mm.group(1) if mm else t)
            return Adt(type_head(t), 0, [])
        if c == '{' and s.startswith('{alloc'):
            mm = re.match(r'\{(alloc\d+)(?:\+0x[0-9a-f]+)?: (.*)\}$', s)
            if mm:
                st = self.prog.allocs.get(mm.group(1))
                if st and st in self.prog.fns:
                    return Ref(self.static_cell(st))
                return Opaque('alloc ' + mm.group(2))
        if c == '(' and s.endswith(')'):
            return Tup(self.const(x, fr) for x in split_top(s[1:-1]))
        # path constants: promoted, associated consts, statics, unit variants, fn items
        key = (s, fr.fn.name if (fr is not None and 'promoted[' in s) else None)
        ent = self.prog.pconst_cache.get(key)
        if ent is not None:
            k, v = ent
            if k == 'adt': return Adt(v[0], v[1], [])
            return v
        v = self.path_const(s, fr)
        if isinstance(v, (FnItem, int, bool)) or (isinstance(v, Opaque) and v.payload is None):
            self.prog.pconst_cache[key] = ('val', v)
        elif isinstance(v, Adt) and not v.fields and isinstance(v.variant, int):
            self.prog.pconst_cache[key] = ('adt', (v.name, v.variant))
        elif isinstance(v, (Ref, Str)):
            self.prog.pconst_cache[key] = ('val', v)
        return v

    def static_cell(self, name):
        cc = self.prog.const_cache
        if name not in cc:
            v = self.run_fn(name, [])
            cc[name] = Cell(v)
        return cc[name]

    def path_const(self, s, fr):
        m = re.search(r'::promoted\[(\d+)\]$', s)
        if m and fr is not None:
            name = fr.fn.name + f'::promoted[{m.group(1)}]'
            if name in self.prog.fns:
                return self.static_cell(name).v
        if s in self.prog.fns:
            f = self.prog.fns[s]
            if f.kind == 'fn': return FnItem(s)
            return deep_copy(self.static_cell(s).v)
        r = self.resolve_const_path(s)
        if r is not None:
            return r
        return Opaque('const ' + s)

    def resolve_const_path(self, s):
        c2 = strip_generics(s)
        if c2 in self.prog.fns and self.prog.fns[c2].kind != 'fn':
            return deep_copy(self.static_cell(c2).v)
        # <T as Trait>::NAME / Type::NAME associated consts
        if s.startswith('<'):
            j = find_top(s, 1, '>')
            inner, rest = s[1:j], s[j + 1:]
            k = _find_as_top(inner)
            ty = type_head(inner[:k] if k >= 0 else inner)
            tail = rest[2:] if rest.startswith('::') else rest
            for name, f in self.prog.fns.items():
                if f.kind != 'fn' and name.endswith('::' + tail) and '<impl at' in name:
                    return deep_copy(self.static_cell(name).v)
            return None
        parts = _split_path(c2)
        if len(parts) >= 2:
            en, vn = parts[-2], parts[-1]
            vi = self.prog.variant_index(en, vn)
            if vi is not None:
                return Adt(en, vi, [])
        r0 = self.prog.resolve_crate_fn(s)
        if r0:
            f0 = self.prog.fns.get(r0)
            if f0 is not None and f0.kind != 'fn':
                return deep_copy(self.static_cell(r0).v)
            return FnItem(s)
        # item nested in a function that the use site names through its impl type: Type::method::{closure#0}::NAME
        for k in range(len(parts) - 1, 0, -1):
            r = self.prog.resolve_crate_fn('::'.join(parts[:k]))
            if r:
                cand = r + '::' + '::'.join(parts[k:])
                f = self.prog.fns.get(cand)
                if f is not None:
                    if f.kind == 'fn': return FnItem(cand)
                    return deep_copy(self.static_cell(cand).v)
        return None

    # rvalues ------------------------------------------------------------------------------------
    def rvalue(self, rv, fr):
        k = rv[0]
        if k == 'use':
            return self.operand(rv[1], fr)
        if k == 'ref':
            cell, path = self.eval_place(rv[1], fr.locs)
            # reborrow of a fat pointer (&*s where s: &str) gives the same fat pointer
            if not path and cell.v.__class__ in (Str, Slice) and rv[1].proj and rv[1].proj[-1][0] == 'deref':
                return cell.v
            return Ref(cell, path)
        if k == 'binop':
            a = self.operand(rv[2], fr); b = self.operand(rv[3], fr)
            return self.binop(rv[1], a, b, rv, fr)
        if k == 'unop':
            a = self.operand(rv[2], fr)
            return self.unop(rv[1], a, rv, fr)
        if k == 'discr':
            cell, path = self.eval_place(rv[1], fr.locs)
            v = self.load(cell, path)
            if isinstance(v, Coroutine): return v.state
            if isinstance(v, Adt): return self.prog.discr_value(v)
            if isinstance(v, int) and not isinstance(v, bool): return v      # fieldless enum produced by transmute from its integer
            if isinstance(v, (Ref, BoxV)):
                v2 = self.rdd(v)
                if isinstance(v2, Adt): return self.prog.discr_value(v2)
            raise EncoderGap(f'discriminant of {type(v).__name__} {v!r}')
        if k == 'cast':
            return self.cast(self.operand(rv[1], fr), rv[2], rv[3], rv[1], fr)
        if k == 'tuple':
            return Tup(self.operand(o, fr) for o in rv[1])
        if k == 'array':
            return Tup(self.operand(o, fr) for o in rv[1])
        if k == 'repeat':
            v = self.operand(rv[1], fr)
            n = self.const_usize(rv[2], fr)
            return Tup(deep_copy(v) for _ in range(n))
        if k == 'adt':
            return self.mk_adt(rv[1], [self.operand(o, fr) for o in rv[2]])
        if k == 'closure':
            c = Closure(rv[1], [self.operand(o, fr) for o in rv[2]])
            c.creator = fr.fn.name
            return c
        if k == 'coroutine':
            body = self.prog.fn_of_coroutine(rv[1], fr.fn.name)
            if body is None: raise EncoderGap('coroutine body for ' + rv[1])
            return Coroutine(body, [self.operand(o, fr) for o in rv[2]])
        if k == 'len':
            cell, path = self.eval_place(rv[1], fr.locs)
            return self.len_of(self.load(cell, path))
        if k == 'opaque':
            return Opaque(rv[1])
        raise EncoderGap('rvalue ' + k)

    def const_usize(self, s, fr):
        s = s.strip()
        if s.startswith('const '): s = s[6:]
        v = self.const(s, fr)
        if isinstance(v, int): return v
        raise EncoderGap('array length ' + s)

    def mk_adt(self, path, fields):
        ent = self.prog.adt_cache.get(path)
        if ent is not None:
            return Adt(ent[0], ent[1], fields)
        a = self._mk_adt(path, fields)
        if isinstance(a.variant, int): self.prog.adt_cache[path] = (a.name, a.variant)
        return a

    def _mk_adt(self, path, fields):
        p2 = strip_generics(path)
        if p2.startswith('<'):
            j = find_top(p2, 1, '>')
            p2 = p2[1:j] if j + 1 >= len(p2) else p2[1:j] + p2[j + 1:]
        parts = _split_path(p2)
        last = parts[-1]
        if '__tokio_select_util' in path and len(parts) >= 2 and parts[-2] == 'Out':
            if last == 'Disabled':
                k = path.find('Out::<')
                n = len(split_top(path[k + 6:find_top(path, k + 6, '>')])) if k >= 0 else 0
                return Adt('Out', n, fields)
            return Adt('Out', int(last[1:]), fields)
        if len(parts) >= 2:
            en = type_head(parts[-2])
            vi = self.prog.variant_index(en, last)
            if vi is not None:
                return Adt(en, vi, fields)
        return Adt(type_head(last), 0, fields)

    # typing helpers -------------------------------------------------------------------------------
    def op_type(self, op, fr):
        k = op[0]
        if k == 'const':
            m = _INT_RE.fullmatch(op[1])
            if m: return m.group(2)
            if op[1] in ('true', 'false'): return 'bool'
            if op[1].startswith("'"): return 'char'
            return None
        if k in ('copy', 'move'):
            return self.place_type(op[1], fr)
        return None

    def place_type(self, pl, fr):
        ty = fr.fn.types.get(pl.local)
        for pj in pl.proj:
            if ty is None and pj[0] != 'field': return None
            if pj[0] == 'field': ty = pj[2]
            elif pj[0] == 'deref': ty = deref_type(ty)
            elif pj[0] in ('index', 'constindex'):
                t = ty.strip()
                if t.startswith('['):
                    inner = t[1:-1]
                    k = find_top(inner, 0, ';')
                    ty = inner[:k].strip()
                else:
                    ty = None
            elif pj[0] == 'downcast': pass
        return ty.strip() if ty else None

    def binop(self, op, a, b, rv, fr):
        ty = self.op_type(rv[2], fr) or self.op_type(rv[3], fr)
        return self.binop_t(op, a, b, ty)

    def binop_t(self, op, a, b, ty):
        sa, sb = is_sym(a), is_sym(b)
        if not sa and not sb:
            if isinstance(a, bool) or isinstance(b, bool):
                if op == 'Eq': return a == b
                if op == 'Ne': return a != b
                if op == 'BitAnd': return a and b
                if op == 'BitOr': return a or b
                if op == 'BitXor': return a != b
                if op == 'Lt': return (not a) and b
                if op == 'Le': return (not a) or b
                if op == 'Gt': return a and not b
                if op == 'Ge': return a or not b
                raise EncoderGap('bool binop ' + op)
            if not isinstance(a, int) or not isinstance(b, int):
                if op in ('Eq', 'Ne') :
                    r = self.values_equal(a, b)
                    return r if op == 'Eq' else self.not_(r)
                raise EncoderGap(f'binop {op} on {type(a).__name__}, {type(b).__name__}')
            w = INT_W.get(ty, 64)
            signed = ty in SIGNED
            if op == 'Eq': return a == b
            if op == 'Ne': return a != b
            if op == 'Lt': return a < b
            if op == 'Le': return a <= b
            if op == 'Gt': return a > b
            if op == 'Ge': return a >= b
            if op == 'Cmp': return Adt('Ordering', 0 if a < b else (1 if a == b else 2), [])
            lo, hi = (-(1 << (w - 1)), (1 << (w - 1)) - 1) if signed else (0, (1 << w) - 1)
            def wrap(x):
                x &= (1 << w) - 1
                if signed and x >> (w - 1): x -= 1 << w
                return x
            if op in ('Add', 'AddUnchecked'): return wrap(a + b)
            if op in ('Sub', 'SubUnchecked'): return wrap(a - b)
            if op in ('Mul', 'MulUnchecked'): return wrap(a * b)
            if op == 'AddWithOverflow': r = a + b; return Tup([wrap(r), not (lo <= r <= hi)])
            if op == 'SubWithOverflow': r = a - b; return Tup([wrap(r), not (lo <= r <= hi)])
            if op == 'MulWithOverflow': r = a * b; return Tup([wrap(r), not (lo <= r <= hi)])
            if op == 'Div':
                if b == 0: raise Panic('attempt to divide by zero')
                q = abs(a) // abs(b)
                return wrap(q if (a < 0) == (b < 0) else -q)
            if op == 'Rem':
                if b == 0: raise Panic('attempt to calculate the remainder with a divisor of zero')
                r = abs(a) % abs(b)
                return wrap(r if a >= 0 else -r)
            if op == 'BitAnd': return wrap(a & b)
            if op == 'BitOr': return wrap(a | b)
            if op == 'BitXor': return wrap(a ^ b)
            if op in ('Shl', 'ShlUnchecked'): return wrap(a << (b % w))
            if op in ('Shr', 'ShrUnchecked'): return wrap(a >> (b % w))
            raise EncoderGap('binop ' + op)
        # symbolic
        x = a if sa else b
        if z3.is_bool(x):
            A = a if sa else z3.BoolVal(bool(a)); B = b if sb else z3.BoolVal(bool(b))
            if op == 'Eq': return A == B
            if op == 'Ne': return A != B
            if op == 'BitAnd': return z3.And(A, B)
            if op == 'BitOr': return z3.Or(A, B)
            if op == 'BitXor': return z3.Xor(A, B)
            raise EncoderGap('symbolic bool binop ' + op)
        w = x.size()
        signed = ty in SIGNED
        A = a if sa else z3.BitVecVal(a, w); B = b if sb else z3.BitVecVal(b, w)
        if A.size() != B.size():
            # shifts may have a narrower rhs
            if op in ('Shl', 'Shr', 'ShlUnchecked', 'ShrUnchecked'):
                B = z3.ZeroExt(A.size() - B.size(), B) if B.size() < A.size() else z3.Extract(A.size() - 1, 0, B)
                w = A.size()
            else:
                raise EncoderGap(f'width mismatch in {op}: {A.size()} vs {B.size()}')
        if op == 'Eq': return A == B
        if op == 'Ne': return A != B
        if op == 'Lt': return (A < B) if signed else z3.ULT(A, B)
        if op == 'Le': return (A <= B) if signed else z3.ULE(A, B)
        if op == 'Gt': return (A > B) if signed else z3.UGT(A, B)
        if op == 'Ge': return (A >= B) if signed else z3.UGE(A, B)
        if op in ('Add', 'AddUnchecked'): return A + B
        if op in ('Sub', 'SubUnchecked'): return A - B
        if op in ('Mul', 'MulUnchecked'): return A * B
        if op == 'AddWithOverflow':
            ov = z3.Not(z3.And(z3.BVAddNoOverflow(A, B, signed), z3.BVAddNoUnderflow(A, B) if signed else True))
            return Tup([A + B, ov])
        if op == 'SubWithOverflow':
            ov = z3.Not(z3.And(z3.BVSubNoUnderflow(A, B, signed), z3.BVSubNoOverflow(A, B) if signed else True))
            return Tup([A - B, ov])
        if op == 'MulWithOverflow':
            ov = z3.Not(z3.And(z3.BVMulNoOverflow(A, B, signed), z3.BVMulNoUnderflow(A, B) if signed else True))
            return Tup([A * B, ov])
        if op == 'Div':
            if self.branch(B == 0): raise Panic('attempt to divide by zero')
            return (A / B) if signed else z3.UDiv(A, B)
        if op == 'Rem':
            if self.branch(B == 0): raise Panic('attempt to calculate the remainder with a divisor of zero')
            return z3.SRem(A, B) if signed else z3.URem(A, B)
        if op == 'BitAnd': return A & B
        if op == 'BitOr': return A | B
        if op == 'BitXor': return A ^ B
        if op in ('Shl', 'ShlUnchecked'): return A << B
        if op in ('Shr', 'ShrUnchecked'): return (A >> B) if signed else z3.LShR(A, B)
        if op == 'Cmp':
            lt = (A < B) if signed else z3.ULT(A, B)
            if self.branch(lt): return Adt('Ordering', 0, [])
            if self.branch(A == B): return Adt('Ordering', 1, [])
            return Adt('Ordering', 2, [])
        raise EncoderGap('symbolic binop ' + op)

    def not_(self, v):
        if isinstance(v, bool): return not v
        return z3.Not(v)

    def unop(self, op, a, rv, fr):
        if op == 'Not':
            if isinstance(a, bool): return not a
            if is_sym(a):
                return z3.Not(a) if z3.is_bool(a) else ~a
            ty = self.op_type(rv[2], fr)
            w = INT_W.get(ty, 64)
            if ty in SIGNED: return ~a
            return (~a) & ((1 << w) - 1)
        if op == 'Neg':
            if is_sym(a): return -a
            ty = self.op_type(rv[2], fr)
            w = INT_W.get(ty, 64)
            r = -a
            if r == (1 << (w - 1)): raise Panic('attempt to negate with overflow')
            return r
        if op == 'PtrMetadata':
            v = a
            if isinstance(v, (Str, Slice)): return len(v)
            v = self.rdd(v)
            if isinstance(v, (Str, Slice, VecV, Tup)): return self.len_of(v)
            return Tup()
        raise EncoderGap('unop ' + op)

    def cast(self, v, ty, kind, op, fr):
        ty = ty.strip()
        if kind.startswith('PointerCoercion') or kind in ('Unsize', 'PtrToPtr', 'Subtype', 'Transmute', 'MutToConstPointer',
                                                         'ReifyFnPointer', 'ClosureFnPointer', 'UnsafeFnPointer', 'ArrayToPointer',
                                                         'FnPtrToPtr', 'PointerExposeProvenance', 'PointerWithExposedProvenance'):
            # &[T; N] -> &[T]: make a slice view;  &T -> &dyn Trait: identity
            if 'Unsize' in kind:
                tt = deref_type(ty) or ''
                if tt.startswith('[') and isinstance(v, Ref):
                    arr = self.rd(v)
                    if isinstance(arr, Tup):
                        if all(isinstance(x, int) or is_sym(x) for x in arr) and (tt == '[u8]'):
                            return Str(arr)
                        return Slice([Cell(x) for x in arr])
            return v
        if kind in ('IntToInt',):
            src = self.op_type(op, fr)
            return self.int_cast(v, src, ty)
        if kind in ('IntToFloat', 'FloatToInt', 'FloatToFloat'):
            return Opaque('float')
        raise EncoderGap(f'cast kind {kind} to {ty}')

    def int_cast(self, v, src, dst):
        dw = INT_W.get(dst)
        if dw is None:
            if dst == 'bool': return v
            raise EncoderGap('int cast to ' + dst)
        if isinstance(v, bool):
            return 1 if v else 0
        if is_sym(v):
            if z3.is_bool(v):
                return z3.If(v, z3.BitVecVal(1, dw), z3.BitVecVal(0, dw))
            sw = v.size()
            if dw == sw: return v
            if dw < sw: return z3.Extract(dw - 1, 0, v)
            return z3.SignExt(dw - sw, v) if src in SIGNED else z3.ZeroExt(dw - sw, v)
        if isinstance(v, Adt):
            v = self.prog.discr_value(v)     # fieldless enum as integer
        x = v & ((1 << dw) - 1)
        if dst in SIGNED and x >> (dw - 1): x -= 1 << dw
        return x

    # equality on model values ----------------------------------------------------------------------
    def values_equal(self, a, b):
        """structural equality -> bool | z3 Bool"""
        a = self.rdd(a) if isinstance(a, (Ref, BoxV)) else a
        b = self.rdd(b) if isinstance(b, (Ref, BoxV)) else b
        if isinstance(a, StringV): a = a.view()
        if isinstance(b, StringV): b = b.view()
        if isinstance(a, Str) and isinstance(b, Str):
            if len(a) != len(b): return False
            conds = []
            for x, y in zip(a.bytes(), b.bytes()):
                if isinstance(x, int) and isinstance(y, int):
                    if x != y: return False
                else:
                    conds.append(x == y)
            if not conds: return True
            return z3.And(conds) if len(conds) > 1 else conds[0]
        if isinstance(a, bool) and isinstance(b, bool): return a == b
        if isinstance(a, int) and isinstance(b, int) and not isinstance(a, bool): return a == b
        if is_sym(a) or is_sym(b):
            if isinstance(a, bool): a = z3.BoolVal(a)
            if isinstance(b, bool): b = z3.BoolVal(b)
            return a == b
        if isinstance(a, Adt) and isinstance(b, Adt):
            va, vb = a.variant, b.variant
            if isinstance(va, int) and isinstance(vb, int):
                if va != vb: return False
                return self.and_all(self.values_equal(x, y) for x, y in zip(a.fields, b.fields))
            raise EncoderGap('equality of symbolic-variant ADTs')
        if isinstance(a, (Tup, list)) and isinstance(b, (Tup, list)):
            if len(a) != len(b): return False
            return self.and_all(self.values_equal(x, y) for x, y in zip(a, b))
        if isinstance(a, (VecV, Slice)) and isinstance(b, (VecV, Slice)):
            ca = a.items if isinstance(a, VecV) else a.cells()
            cb = b.items if isinstance(b, VecV) else b.cells()
            if len(ca) != len(cb): return False
            return self.and_all(self.values_equal(x.v, y.v) for x, y in zip(ca, cb))
        if isinstance(a, HMap) and isinstance(b, HMap):
            conds = []
            keys = [s[0] for s in a.slots] + [s[0] for s in b.slots if a.find(s[0]) is None]
            for k in keys:
                sa, sb = a.find(k), b.find(k)
                la = sa[1] if sa else False; lb = sb[1] if sb else False
                if isinstance(la, bool) and isinstance(lb, bool):
                    if la != lb: return False
                    if la and not a.is_set:
                        conds.append(self.values_equal(sa[2].v, sb[2].v))
                else:
                    LA = la if is_sym(la) else z3.BoolVal(la); LB = lb if is_sym(lb) else z3.BoolVal(lb)
                    c = (LA == LB)
                    if sa and sb and not a.is_set:
                        ve = self.values_equal(sa[2].v, sb[2].v)
                        c = z3.And(c, z3.Implies(LA, ve if is_sym(ve) else z3.BoolVal(ve)))
                    conds.append(c)
            return self.and_all(conds)
        if isinstance(a, Opaque) and isinstance(b, Opaque):
            return a is b or (a.n == b.n and a.payload == b.payload)
        raise EncoderGap(f'equality of {type(a).__name__} and {type(b).__name__}')

    def and_all(self, it):
        conds = []
        for c in it:
            if isinstance(c, bool):
                if not c: return False
            else:
                conds.append(c)
        if not conds: return True
        return z3.And(conds) if len(conds) > 1 else conds[0]

    def or_all(self, it):
        conds = []
        for c in it:
            if isinstance(c, bool):
                if c: return True
            else:
                conds.append(c)
        if not conds: return False
        return z3.Or(conds) if len(conds) > 1 else conds[0]

    # execution --------------------------------------------------------------------------------------
    def run_fn(self, name, args):
        fn = self.prog.fns.get(name)
        if fn is None:
            raise EncoderGap('no MIR for ' + name)
        if not fn.parsed:
            try:
                parse_fn(fn)
            except MirParseError as e:
                raise EncoderGap('MIR parse: ' + str(e))
        self.touched.add(name)
        locs = {}
        for i, a in enumerate(args):
            locs[i + 1] = Cell(a)
        fr = Frame(fn, locs)
        self.depth += 1
        if self.depth > self.max_depth:
            raise BoundExceeded('call depth in ' + name)
        self.stack.append(fr)
        blocks = fn.blocks
        bb = 0
        try:
            while True:
                stmts, term = blocks[bb]
                self.steps += len(stmts) + 1
                if self.steps > self.max_steps:
                    raise BoundExceeded(f'step budget {self.max_steps} exhausted in {name}')
                for st in stmts:
                    k = st[0]
                    if k == 'assign':
                        try:
                            val = self.rvalue(st[2], fr)
                        except Panic as e:
                            if not e.site: e.site = st[3]
                            raise
                        pl = st[1]
                        if not pl.proj:
                            c = locs.get(pl.local)
                            if c is None: locs[pl.local] = Cell(val)
                            else: c.v = val
                        else:
                            cell, path = self.eval_place(pl, locs)
                            self.store(cell, path, val)
                    elif k == 'setdiscr':
                        cell, path = self.eval_place(st[1], locs)
                        v = self.load(cell, path)
                        if isinstance(v, Coroutine): v.state = st[2]
                        elif isinstance(v, Adt): v.variant = st[2]
                        elif v is None:
                            self.store(cell, path, Adt(type_head(self.place_type(st[1], fr) or '?'), st[2], []))
                        else: raise EncoderGap('set discriminant of ' + type(v).__name__)
                t = term[0]
                if t == 'goto':
                    bb = term[1]
                elif t == 'call':
                    argv = [self.operand(a, fr) for a in term[3]]
                    try:
                        res = self.call(term[2], argv, fr, term[5])
                    except Panic as e:
                        if not e.site: e.site = term[5]
                        raise
                    if term[4] is None:
                        raise EncoderGap('diverging call returned: ' + term[2])
                    if term[1] is not None:
                        pl = term[1]
                        if not pl.proj:
                            c = locs.get(pl.local)
                            if c is None: locs[pl.local] = Cell(res)
                            else: c.v = res
                        else:
                            cell, path = self.eval_place(pl, locs)
                            self.store(cell, path, res)
                    bb = term[4]
                elif t == 'switch':
                    v = self.operand(term[1], fr)
                    nxt = None
                    if v.__class__ is int or v.__class__ is bool:
                        iv = int(v)
                        for val, tgt in term[2]:
                            if val == iv: nxt = tgt; break
                        if nxt is None: nxt = term[3]
                    elif is_sym(v):
                        isb = z3.is_bool(v)
                        for val, tgt in term[2]:
                            if isb: cond = v if val else z3.Not(v)
                            else:
                                cond = (v == (val & ((1 << v.size()) - 1)))
                            if self.branch(cond): nxt = tgt; break
                        if nxt is None: nxt = term[3]
                    elif isinstance(v, Adt):
                        iv = self.prog.discr_value(v)
                        for val, tgt in term[2]:
                            if val == iv: nxt = tgt; break
                        if nxt is None: nxt = term[3]
                    else:
                        raise EncoderGap(f'switchInt on {type(v).__name__} {v!r} in {name}')
                    if nxt is None:
                        raise EncoderGap('switchInt without target')
                    bb = nxt
                elif t == 'return':
                    c = locs.get(0)
                    return c.v if c is not None else Tup()
                elif t == 'drop':
                    cell, path = self.eval_place(term[1], locs)
                    try:
                        v = self.load(cell, path)
                    except (KeyError, IndexError, TypeError):
                        v = None
                    if v is not None:
                        self.drop_value(v)
                    bb = term[2]
                elif t == 'assert':
                    v = self.operand(term[1], fr)
                    exp = term[2]
                    if isinstance(v, bool): okk = (v == exp)
                    else: okk = self.branch(v if exp else z3.Not(v))
                    if okk: bb = term[5]
                    else:
                        raise Panic(self.fmt_assert(term[3], term[4], fr), term[6])
                elif t == 'unreachable':
                    raise EncoderGap('reached `unreachable` in ' + name + f' bb{bb}')
                elif t == 'resume':
                    raise EncoderGap('reached unwind resume in ' + name)
                else:
                    raise EncoderGap('terminator ' + t)
        except (Panic, Infeasible, EncoderGap, BoundExceeded, PathAbort):
            raise
        except RecursionError:
            raise
        except Exception as e:
            import traceback
            tb = traceback.extract_tb(e.__traceback__)[-1]
            cur = None
            try:
                stmts, term = blocks[bb]
                cur = term if 'st' not in dir() else None
            except Exception:
                pass
            raise EncoderGap(f'interpreter error {type(e).__name__}: {e} [{tb.filename.split("/")[-1]}:{tb.lineno}] in {name} bb{bb}: {str(blocks.get(bb))[:400]}')
        finally:
            self.depth -= 1
            self.stack.pop()

    def fmt_assert(self, msg, args, fr):
        try:
            vals = [self.operand(a, fr) for a in args]
            out = msg
            for v in vals:
                out = out.replace('{}', str(v) if isinstance(v, int) else 'sym', 1).replace('{:?}', str(v) if isinstance(v, int) else 'sym', 1)
            return out
        except Exception:
            return msg

    # drops ---------------------------------------------------------------------------------------------
    def drop_value(self, v, seen=None):
        if isinstance(v, Adt):
            hook = DROP_HOOKS.get(v.name)
            if hook is not None:
                hook(self, v)
            else:
                r = self.prog.impl_index.get((v.name, 'Drop', 'drop'))
                if r:
                    self.run_fn(r[0], [Ref(Cell(v))])
            if isinstance(v.variant, int) or v.name != 'Option':
                for f in v.fields:
                    if f is not None: self.drop_value(f)
        elif isinstance(v, (Tup, list)):
            for f in v:
                if f is not None: self.drop_value(f)
        elif isinstance(v, VecV):
            for c in v.items: self.drop_value(c.v)
        elif isinstance(v, BoxV):
            if v.kind == 'Box' and v.cell.v is not None:
                self.drop_value(v.cell.v)
        elif isinstance(v, Coroutine):
            pass
        elif hasattr(v, 'on_drop'):
            v.on_drop(self)

    # calls ------------------------------------------------------------------------------------------
    def call(self, callee, argv, fr, span):
        ent = self.prog.resolve_cache.get(callee)
        if ent is None:
            ent = self.resolve_callee(callee)
            self.prog.resolve_cache[callee] = ent
        kind = ent[0]
        if kind == 'fn':
            return self.run_fn(ent[1], argv)
        if kind == 'model':
            self.models_used.add(ent[2])
            return ent[1](self, ent[3], *argv)
        raise EncoderGap('no model for callee ' + callee)

    def resolve_callee(self, callee):
        from . import models
        # crate-defined functions win, except the ones explicitly overridden by environment models
        ov = models.lookup_override(callee)
        if ov is not None:
            return ov
        name = self.prog.resolve_crate_fn(callee)
        if name is not None and name in self.prog.fns:
            return ('fn', name)
        m = models.lookup(callee)
        if m is not None:
            return m
        return ('gap',)

    def call_value(self, f, args):
        """call a closure / fn item value with already-untupled args"""
        if isinstance(f, Ref):
            inner = self.rd(f)
            if isinstance(inner, (Closure, FnItem)):
                return self.call_value_ref(f, inner, args)
        if isinstance(f, Closure):
            return self.call_value_ref(Ref(Cell(f)), f, args)
        if isinstance(f, FnItem):
            return self.call(f.path, list(args), None, '')
        raise EncoderGap(f'call of {type(f).__name__}')

    def call_value_ref(self, ref, clo, args):
        if isinstance(clo, FnItem):
            return self.call(clo.path, list(args), None, '')
        name = self.prog.fn_of_closure(clo.ident, getattr(clo, 'creator', None), args, self)
        if name is None:
            raise EncoderGap('closure body for ' + clo.ident)
        fn = self.prog.fns[name]
        if not fn.parsed: parse_fn(fn)
        t1 = fn.types.get(1, '')
        if t1.startswith('&'):
            return self.run_fn(name, [ref] + list(args))
        return self.run_fn(name, [clo] + list(args))

    def poll(self, fut_ref, cx):
        """poll a future value held in a place (fut_ref is a Ref to it, or the value)"""
        from . import models
        return models.poll_future(self, fut_ref, cx)

DROP_HOOKS = {}

_INT_RE = re.compile(r'(-?\d+)_(u8|u16|u32|u64|usize|u128|i8|i16|i32|i64|isize|i128)')
_FLOAT_RE = re.compile(r'(-?[\d.eE+-]+)_?f(32|64)')

def _unescape(s):
    if '\\' not in s: return s
    out = []
    i = 0
    n = len(s)
    while i < n:
        c = s[i]
        if c != '\\':
            out.append(c); i += 1; continue
        d = s[i + 1]
        if d == 'n': out.append('\n'); i += 2
        elif d == 'r': out.append('\r'); i += 2
        elif d == 't': out.append('\t'); i += 2
        elif d == '0': out.append('\0'); i += 2
        elif d == '\\': out.append('\\'); i += 2
        elif d == '"': out.append('"'); i += 2
        elif d == "'": out.append("'"); i += 2
        elif d == 'x': out.append(chr(int(s[i + 2:i + 4], 16))); i += 4
        elif d == 'u':
            k = s.index('}', i)
            out.append(chr(int(s[i + 3:k], 16))); i = k + 1
        else: out.append(d); i += 2
    return ''.join(out)

def _unescape_bytes(s):
    out = bytearray()
    i = 0
    n = len(s)
    while i < n:
        c = s[i]
        if c != '\\':
            out += c.encode('utf-8', 'surrogateescape'); i += 1; continue
        d = s[i + 1]
        if d == 'n': out.append(10); i += 2
        elif d == 'r': out.append(13); i += 2
        elif d == 't': out.append(9); i += 2
        elif d == '0': out.append(0); i += 2
        elif d == '\\': out.append(92); i += 2
        elif d == '"': out.append(34); i += 2
        elif d == "'": out.append(39); i += 2
        elif d == 'x': out.append(int(s[i + 2:i + 4], 16)); i += 4
        else: out += d.encode(); i += 2
    return bytes(out)
