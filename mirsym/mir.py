"""Loader and parser for rustc's textual MIR (-Zunpretty=mir, with spans).

The dump is regenerated from /repo on every check run (see build.py).  This module turns the text into a
small IR the interpreter executes.  Anything it cannot parse raises MirParseError: a check that meets one
exits 2 (inconclusive) -- the text format is an unstable interface and must fail loudly.
"""
import re, os

class MirParseError(Exception):
    pass

# ---------------------------------------------------------------------------------------------- text utils
_OPEN = '([{<'
_CLOSE = ')]}>'

def _is_arrow_gt(s, i):
    # '>' that belongs to '->' or '=>' is not a bracket
    return i > 0 and s[i - 1] in '-='

def skip_string(s, i):
    """s[i] is '"' (or b" handled by caller): return index after closing quote"""
    j = i + 1
    n = len(s)
    while j < n and s[j] != '"':
        if s[j] == '\\':
            j += 1
        j += 1
    return j + 1

_CHAR_RE = re.compile(r"'(\\u\{[0-9a-fA-F]+\}|\\x[0-9a-fA-F]{2}|\\.|[^'\\])'")

def find_top(s, i, stops):
    """index of first char in `stops` at bracket depth 0 starting from i, or len(s)"""
    depth = 0
    n = len(s)
    while i < n:
        c = s[i]
        if c == '"':
            i = skip_string(s, i); continue
        if c == "'":
            m = _CHAR_RE.match(s, i)
            if m:
                i = m.end(); continue
        if depth == 0 and c in stops:
            return i
        if c in _OPEN:
            if c == '<' and i + 1 < n and s[i + 1] in '= ' and (i == 0 or s[i - 1] == ' '):
                pass  # comparison operator in assert messages - not a bracket
            else:
                depth += 1
        elif c in _CLOSE:
            if c == '>' and _is_arrow_gt(s, i):
                pass
            else:
                depth -= 1
                if depth < 0:
                    return i
        i += 1
    return n

def split_top(s, sep=','):
    out = []
    i = 0
    n = len(s)
    while i <= n:
        j = find_top(s, i, sep)
        # find_top may stop at an unbalanced closer; treat as end
        if j < n and s[j] != sep:
            j = n
        piece = s[i:j].strip()
        if piece or j < n:
            out.append(piece)
        if j >= n:
            break
        i = j + 1
    return [p for p in out if p != '']

def strip_generics(c):
    """remove ::<...> turbofish groups and <...> type argument lists that follow an identifier"""
    out = []
    i = 0
    n = len(c)
    while i < n:
        if c.startswith('::<', i) and not c.startswith('::<impl ', i):
            j = i + 3; d = 1
            while d and j < n:
                if c[j] == '<': d += 1
                elif c[j] == '>' and not _is_arrow_gt(c, j): d -= 1
                j += 1
            i = j
        else:
            out.append(c[i]); i += 1
    return ''.join(out)

def strip_all_generics(c):
    """remove every <...> group (used for type heads): Vec<String> -> Vec"""
    out = []
    d = 0
    for i, ch in enumerate(c):
        if ch == '<':
            d += 1
        elif ch == '>' and not _is_arrow_gt(c, i):
            d -= 1
        elif d == 0:
            out.append(ch)
    return ''.join(out)

# ---------------------------------------------------------------------------------------------- IR classes
class Fn:
    __slots__ = ('name', 'kind', 'sig', 'raw', 'nargs', 'types', 'blocks', 'parsed', 'span', 'ret_ty', 'line_no', 'debug')
    def __init__(self, name, kind, sig, line_no):
        self.name, self.kind, self.sig, self.raw = name, kind, sig, []
        self.nargs = 0
        self.types = {}
        self.blocks = None
        self.parsed = False
        self.ret_ty = None
        self.line_no = line_no
        self.debug = {}

class Place:
    __slots__ = ('local', 'proj')
    def __init__(self, local, proj=()):
        self.local, self.proj = local, proj
    def __repr__(self):
        return f'_{self.local}{list(self.proj) if self.proj else ""}'

# ---------------------------------------------------------------------------------------------- loading
_HDR_FN = re.compile(r'^fn (.*?)\((.*)\) -> (.*) \{$')
_HDR_FN0 = re.compile(r'^fn (.*?)\((.*)\) \{$')
_HDR_CONST = re.compile(r'^(const|static|static mut) (.*?): (.*) = \{$')

def load_mir(path):
    """returns dict name -> Fn (raw lines only; parse lazily), plus list of duplicate names"""
    fns = {}
    dups = []
    cur = None
    with open(path, errors='surrogateescape') as f:
        for no, raw in enumerate(f, 1):
            if cur is None:
                if raw.startswith('fn '):
                    line = raw.rstrip('\n')
                    # the header may carry a trailing comment? no.  find the arg list by bracket matching
                    name_end = _fn_name_end(line)
                    name = line[3:name_end]
                    cur = Fn(name, 'fn', line, no)
                    if name in fns: dups.append(name)
                    fns[name] = cur
                elif raw.startswith(('const ', 'static ')):
                    line = raw.rstrip('\n')
                    m = _HDR_CONST.match(line)
                    if not m:
                        if line.endswith(';'):      # `const X: T = const 41_usize;`
                            m2 = re.match(r'^(const|static mut|static) (.*) = (.*);$', line)
                            if m2:
                                body = m2.group(2)
                                k = _last_top_colon(body)
                                cname, cty = body[:k], body[k + 2:]
                                c = Fn(cname, 'constval', line, no)
                                c.raw = [m2.group(3)]; c.ret_ty = cty
                                fns.setdefault(cname, c)
                            continue
                        raise MirParseError(f'line {no}: {line[:120]}')
                    name = m.group(2)
                    # name may contain ': ' inside <impl at a:1:2: 3:4>; re-split on the last top-level ': ' before ' = {'
                    body = line[len(m.group(1)) + 1:-len(' = {')]
                    k = _last_top_colon(body)
                    name, ty = body[:k], body[k + 2:]
                    cur = Fn(name, 'const', line, no)
                    cur.ret_ty = ty
                    if name in fns: dups.append(name)
                    else: fns[name] = cur
                # alloc dumps and blank lines are ignored
            else:
                if raw.startswith('}'):
                    cur = None
                else:
                    cur.raw.append(raw)
    return fns, dups

def _fn_name_end(line):
    # "fn NAME(_1: T, ...) -> R {" : NAME may contain '<impl at ...>' and '{closure#0}' but no '(' at depth 0
    i = 3
    depth = 0
    n = len(line)
    while i < n:
        c = line[i]
        if c in '<{[':
            depth += 1
        elif c in '}]' or (c == '>' and not _is_arrow_gt(line, i)):
            depth -= 1
        elif c == '(' and depth == 0:
            return i
        i += 1
    raise MirParseError('fn header: ' + line[:120])

def _last_top_colon(s):
    depth = 0
    last = -1
    i = 0
    n = len(s)
    while i < n:
        c = s[i]
        if c in '<{[(':
            depth += 1
        elif c in '}])' or (c == '>' and not _is_arrow_gt(s, i)):
            depth -= 1
        elif c == ':' and depth == 0 and s[i + 1:i + 2] == ' ':
            if last < 0: last = i     # first top-level ': ' separates name and type
        i += 1
    if last < 0:
        raise MirParseError('const header: ' + s[:120])
    return last

# ---------------------------------------------------------------------------------------------- body parsing
_SPAN_RE = re.compile(r';\s+// scope \d+ at (.*)$')
_LET_RE = re.compile(r'^\s*let (?:mut )?_(\d+): (.*?);\s*(?://.*)?$')
_DEBUG_RE = re.compile(r'^\s*debug (\S+) => (.*?);')
_BB_RE = re.compile(r'^\s*bb(\d+)( \(cleanup\))?: \{\s*$')

def parse_fn(fn):
    if fn.parsed:
        return fn
    if fn.kind == 'constval':
        fn.blocks = {0: ([('assign', Place(0), parse_rvalue(fn.raw[0]), '')], ('return',))}
        fn.parsed = True
        return fn
    hdr = fn.sig
    if fn.kind == 'fn':
        i = _fn_name_end(hdr)
        j = find_top(hdr, i + 1, ')')
        params = split_top(hdr[i + 1:j])
        fn.nargs = len(params)
        for p in params:
            m = re.match(r'_(\d+): (.*)$', p)
            if not m: raise MirParseError('param ' + p)
            fn.types[int(m.group(1))] = m.group(2)
        rest = hdr[j + 1:].strip()
        fn.ret_ty = rest[3:-2].strip() if rest.startswith('->') else '()'
    fn.types[0] = fn.ret_ty
    blocks = {}
    cur = None
    cur_stmts = None
    for raw in fn.raw:
        s = raw.rstrip('\n')
        st = s.strip()
        if not st or st.startswith('//'):
            continue
        if cur is None:
            m = _BB_RE.match(s)
            if m:
                cur = int(m.group(1)); cur_stmts = []
                continue
            m = _LET_RE.match(s)
            if m:
                fn.types[int(m.group(1))] = m.group(2).strip()
                continue
            m = _DEBUG_RE.match(s)
            if m:
                fn.debug.setdefault(m.group(1), m.group(2))
            continue
        if st == '}':
            if not cur_stmts:
                raise MirParseError(f'{fn.name}: empty bb{cur}')
            blocks[cur] = (cur_stmts[:-1], cur_stmts[-1])
            cur = None
            continue
        m = _SPAN_RE.search(st)
        if m:
            span = m.group(1); body = st[:m.start()]
        else:
            k = st.rfind('; //')
            if k >= 0: body, span = st[:k], st[k + 4:].strip()
            elif st.endswith(';'): body, span = st[:-1], ''
            else: raise MirParseError(f'{fn.name}: bb{cur}: {st[:160]}')
        try:
            cur_stmts.append(parse_stmt(body, span))
        except MirParseError as e:
            raise MirParseError(f'{fn.name} (dump line ~{fn.line_no}) bb{cur}: {e}')
    fn.blocks = blocks
    fn.parsed = True
    fn.raw = None
    return fn

_NOPS = ('StorageLive(', 'StorageDead(', 'nop', 'FakeRead(', 'PlaceMention(', 'Retag(', 'ConstEvalCounter',
         'Coverage', 'AscribeUserType(', 'BackwardIncompatibleDropHint(', 'Deinit(')
_TARGET_RE = re.compile(r'bb(\d+)')

def parse_stmt(body, span):
    if body.startswith(_NOPS):
        return ('nop',)
    if body == 'return': return ('return',)
    if body == 'unreachable': return ('unreachable',)
    if body in ('resume', 'unwind_terminate', 'abort') or body.startswith(('terminate(', 'resume')): return ('resume',)
    if body.startswith('goto -> '):
        return ('goto', int(body[10:]))
    if body.startswith('switchInt('):
        j = find_top(body, 10, ')')
        op = parse_operand(body[10:j])
        tg = body[j + 1:].strip()
        assert tg.startswith('-> ['), body
        targets = []; other = None
        for t in tg[4:-1].split(', '):
            k, b = t.split(': ')
            if k == 'otherwise': other = int(b[2:])
            else: targets.append((int(k), int(b[2:])))
        return ('switch', op, targets, other)
    if body.startswith('drop('):
        j = find_top(body, 5, ')')
        pl = parse_place(body[5:j])
        m = re.search(r'return: bb(\d+)', body[j:])
        return ('drop', pl, int(m.group(1)))
    if body.startswith('assert('):
        j = find_top(body, 7, ')')
        inner = split_top(body[7:j])
        cond = inner[0]
        expected = True
        if cond.startswith('!'):
            expected = False; cond = cond[1:]
        msg = inner[1] if len(inner) > 1 else '""'
        args = [parse_operand(a) for a in inner[2:]]
        m = re.search(r'success: bb(\d+)', body[j:])
        return ('assert', parse_operand(cond), expected, _unq(msg), args, int(m.group(1)), span)
    if body.startswith('discriminant(') and ') = ' in body:
        j = find_top(body, 13, ')')
        if body[j + 1:j + 4] == ' = ':
            return ('setdiscr', parse_place(body[13:j]), int(body[j + 4:]))
    if body.startswith(('assume(', 'copy_nonoverlapping(')):
        return ('nop',)
    if body.startswith('falseEdge') or body.startswith('falseUnwind'):
        m = re.search(r'real: bb(\d+)', body)
        return ('goto', int(m.group(1)))
    # assignment or call
    k = _find_assign(body)
    arrow = _find_call_arrow(body)
    if arrow >= 0:
        lhs = None
        callpart = body[:arrow]
        if k >= 0 and k < arrow:
            lhs = parse_place(body[:k]); callpart = body[k + 3:arrow]
        # callee(args)
        p = _callee_end(callpart)
        callee = callpart[:p].strip()
        j = find_top(callpart, p + 1, ')')
        args = [parse_operand(a) for a in split_top(callpart[p + 1:j])]
        tail = body[arrow:]
        m = re.search(r'return: bb(\d+)', tail)
        ret = int(m.group(1)) if m else None
        return ('call', lhs, callee, args, ret, span)
    if k < 0:
        raise MirParseError('statement: ' + body[:200])
    return ('assign', parse_place(body[:k]), parse_rvalue(body[k + 3:]), span)

def _unq(s):
    s = s.strip()
    if s.startswith('"') and s.endswith('"'):
        return s[1:-1]
    return s

def _find_assign(body):
    """index of the top-level ' = ' separating place and rvalue"""
    i = find_top(body, 0, '=')
    while i < len(body):
        if body[i - 1:i + 2] == ' = ':
            return i - 1
        i = find_top(body, i + 1, '=')
    return -1

def _find_call_arrow(body):
    k = body.rfind(' -> [return: ')
    if k < 0:
        m = re.search(r'\) -> (unwind[: ].*|bb\d+)$', body)
        if m:
            return m.start() + 1
        return -1
    return k

def _callee_end(s):
    depth = 0
    i = 0
    n = len(s)
    while i < n:
        c = s[i]
        if c in '<{[':
            depth += 1
        elif c in '}]' or (c == '>' and not _is_arrow_gt(s, i)):
            depth -= 1
        elif c == '(' and depth == 0:
            return i
        i += 1
    raise MirParseError('callee: ' + s[:160])

# places ----------------------------------------------------------------------------------------
def parse_place(s):
    s = s.strip()
    pl, j = _pplace(s, 0)
    if j != len(s):
        raise MirParseError(f'place trailing: {s!r} @{j}')
    return pl

def _pplace(s, i):
    c = s[i]
    if c == '(':
        if s[i + 1] == '*':
            inner, j = _pplace(s, i + 2)
            if s[j] != ')': raise MirParseError('place ) ' + s)
            pl = Place(inner.local, inner.proj + (('deref',),)); j += 1
        else:
            inner, j = _pplace(s, i + 1)
            if s.startswith(' as ', j):
                k = s.index(')', j)
                pl = Place(inner.local, inner.proj + (('downcast', s[j + 4:k]),)); j = k + 1
            elif s[j] == '.':
                m = re.match(r'\.(\d+): ', s[j:])
                if not m: raise MirParseError('place field ' + s)
                k = find_top(s, j + len(m.group(0)), ')')
                ty = s[j + len(m.group(0)):k]
                pl = Place(inner.local, inner.proj + (('field', int(m.group(1)), ty),)); j = k + 1
            elif s[j] == ')':
                pl = inner; j += 1
            else:
                raise MirParseError('place ' + s)
    elif c == '*':
        inner, j = _pplace(s, i + 1)
        pl = Place(inner.local, inner.proj + (('deref',),))
    elif c == '_':
        m = re.match(r'_(\d+)', s[i:])
        pl = Place(int(m.group(1))); j = i + len(m.group(0))
    else:
        raise MirParseError('place ' + s)
    while j < len(s) and s[j] == '[':
        k = s.index(']', j)
        inner = s[j + 1:k]
        m = re.fullmatch(r'_(\d+)', inner)
        if m:
            pl = Place(pl.local, pl.proj + (('index', int(m.group(1))),))
        else:
            m = re.fullmatch(r'(-?)(\d+) of (\d+)', inner)
            if m:
                pl = Place(pl.local, pl.proj + (('constindex', int(m.group(2)), bool(m.group(1))),))
            else:
                m = re.fullmatch(r'(\d+):(-?)(\d*)', inner) or re.fullmatch(r'(\d+)\.\.(-?)(\d*)', inner)
                if not m: raise MirParseError('place index ' + s)
                pl = Place(pl.local, pl.proj + (('subslice', int(m.group(1)), int(m.group(3) or 0), bool(m.group(2))),))
        j = k + 1
    return pl, j

# operands --------------------------------------------------------------------------------------
def parse_operand(s):
    s = s.strip()
    if s.startswith('const '):
        return ('const', s[6:].strip())
    mode = 'copy'
    while True:
        if s.startswith('copy '): s = s[5:]; mode = 'copy'
        elif s.startswith('move '): s = s[5:]; mode = 'move'
        elif s.startswith('no_retag '): s = s[9:]
        else: break
    if not s.startswith(('_', '(', '*')):
        return ('fnref', s)
    return (mode, parse_place(s))

BINOPS = {'Add', 'Sub', 'Mul', 'Div', 'Rem', 'BitXor', 'BitAnd', 'BitOr', 'Shl', 'Shr', 'Eq', 'Lt', 'Le', 'Ne', 'Ge', 'Gt',
          'Cmp', 'Offset', 'AddWithOverflow', 'SubWithOverflow', 'MulWithOverflow', 'AddUnchecked', 'SubUnchecked',
          'MulUnchecked', 'ShlUnchecked', 'ShrUnchecked'}
UNOPS = {'Not', 'Neg', 'PtrMetadata'}

def parse_rvalue(r):
    r = r.strip()
    m = re.match(r'(\w+)\(', r)
    if m and r.endswith(')'):
        name = m.group(1)
        if name in BINOPS:
            a = split_top(r[len(name) + 1:-1])
            return ('binop', name, parse_operand(a[0]), parse_operand(a[1]))
        if name in UNOPS:
            return ('unop', name, parse_operand(r[len(name) + 1:-1]))
        if name == 'discriminant':
            return ('discr', parse_place(r[13:-1]))
        if name == 'Len':
            return ('len', parse_place(r[4:-1]))
        if name == 'CopyForDeref':
            return ('use', ('copy', parse_place(r[13:-1])))
        if name in ('SizeOf', 'AlignOf'):
            return ('opaque', r)
    if r.startswith('&'):
        rest = r[1:]
        mut = False
        for pre in ('raw const ', 'raw mut ', 'mut ', 'fake shallow ', 'fake ', 'two_phase '):
            if rest.startswith(pre):
                mut = 'mut' in pre; rest = rest[len(pre):]
                if rest.startswith('(fake) '): rest = rest[7:]          # `&raw const (fake) (*p)`: address taken only for a bounds check
                break
        return ('ref', parse_place(rest), mut)
    if r == '()':
        return ('tuple', [])
    if r.startswith(('copy ', 'move ', 'const ', 'no_retag ')):
        # cast?  `move _3 as T (Kind)`
        k = _find_as(r)
        if k >= 0:
            op = parse_operand(r[:k])
            rest = r[k + 4:]
            m2 = re.search(r' \(([A-Za-z]+)(\(.*\))?(, \w+)?\)$', rest)
            if not m2: raise MirParseError('cast ' + r)
            return ('cast', op, rest[:m2.start()], m2.group(1) + (m2.group(2) or ''))
        return ('use', parse_operand(r))
    if r.startswith('['):
        j = find_top(r, 1, ']')
        inner = r[1:j]
        k = find_top(inner, 0, ';')
        if k < len(inner):
            return ('repeat', parse_operand(inner[:k]), inner[k + 1:].strip())
        return ('array', [parse_operand(a) for a in split_top(inner)])
    if r.startswith('('):
        j = find_top(r, 1, ')')
        if j == len(r) - 1:
            return ('tuple', [parse_operand(a) for a in split_top(r[1:j])])
    if r.startswith('{closure@') or r.startswith('{coroutine@') or r.startswith('{async ') or r.startswith('{coroutine'):
        j = find_top(r, 1, '}')
        ident = r[:j + 1]
        rest = r[j + 1:].strip()
        fields = _parse_named_fields(rest) if rest else []
        kind = 'closure' if r.startswith('{closure@') else 'coroutine'
        return (kind, ident, fields)
    # ADT aggregate
    k = _adt_head_end(r)
    path, rest = r[:k].strip(), r[k:].strip()
    if rest.startswith('{'):
        fields = _parse_named_fields(rest)
    elif rest.startswith('('):
        fields = [parse_operand(a) for a in split_top(rest[1:-1])]
    elif rest == '':
        fields = []
    else:
        raise MirParseError('rvalue ' + r[:200])
    return ('adt', path, fields)

def _parse_named_fields(rest):
    assert rest.startswith('{') and rest.endswith('}'), rest
    inner = rest[1:-1].strip()
    out = []
    for f in split_top(inner):
        k = f.index(': ')
        out.append(parse_operand(f[k + 2:]))
    return out

def _find_as(r):
    i = find_top(r, 0, ' ')
    # scan for ' as ' at depth 0
    n = len(r)
    i = 0
    while i < n:
        j = find_top(r, i, ' ')
        if j >= n: return -1
        if r.startswith(' as ', j):
            return j
        i = j + 1
    return -1

def _adt_head_end(r):
    depth = 0
    n = len(r)
    i = 0
    while i < n:
        c = r[i]
        if c == '<' or c == '[':
            depth += 1
        elif c == ']' or (c == '>' and not _is_arrow_gt(r, i)):
            depth -= 1
        elif depth == 0 and (c == '(' or (c == ' ' and r[i + 1:i + 2] == '{')):
            return i
        i += 1
    return n
