"""One protocol step from an arbitrary Inv-world: run a line through MainState::process (the real select! loop body,
parser, gate, dispatch, handler, flush) and hand pre/post relations and all outputs to a property judge."""
import time, json
import z3
from .values import *
from .explore import explore, check_valid, Stats, model_of
from .world import World, Spec
from .post import Snapshot, inv_obligations, Implies
from .models.fmt_m import text_of, DecSeg

class StepCtx:
    pass

def buf_text(b):
    return text_of(b)

def concrete_line(b):
    return all(isinstance(x, int) for x in b)

def line_bytes(b):
    return bytes(x for x in b)

def run_step(M, prog, case):
    """execute one path; returns StepCtx (raises Panic etc. after recording what is needed in M.env['ctx'])"""
    M.env['select_start'] = 0
    M.env.setdefault('verify', lambda M_, pw, hs: M_.values_equal(pw, hs))
    spec = Spec(**case.get('spec', {}))
    w = World(M, prog, spec, partial=case.get('partial'))
    setup = case.get('setup')
    if setup: SETUPS[setup](M, w, case)
    conn_kw = case.get('conn', {})
    actor = case.get('actor', spec.nicks[0])
    conn = w.add_conn(actor, **conn_kw) if conn_kw.get('registered', True) else w.add_conn(conn_kw.get('nick'), **{k: v for k, v in conn_kw.items() if k != 'nick'})
    if case.get('conn_setup'): SETUPS[case['conn_setup']](M, w, case, conn)
    ctx = StepCtx()
    ctx.M, ctx.w, ctx.conn, ctx.case, ctx.actor, ctx.prog = M, w, conn, case, actor, prog
    ctx.pre = Snapshot(prog, w.vs)
    ctx.outcome = 'ok'; ctx.panic = None
    M.env['ctx'] = ctx
    line = case['line']
    if callable(line): line = line(M, w)
    ctx.line = line
    ctx.conns = {actor: conn}
    try:
        # optional prelude: earlier lines by this or other registered connections (their effects are part of the pre-state)
        for who, pl in case.get('prelude', []):
            if who not in ctx.conns: ctx.conns[who] = w.add_conn(who)
            if isinstance(pl, (tuple, list)) and pl[0] == 'call':
                saved = ctx.conn; ctx.conn = ctx.conns[who]
                CALLS[pl[1]](ctx)
                ctx.conn = saved
            else:
                w.process_line(ctx.conns[who], pl)
        for it in case.get('pre_items', []):
            w.run_to_completion(w.start_process(conn, item=it))
        if case.get('prelude') or case.get('pre_items'):
            ctx.pre0 = ctx.pre
            ctx.pre = Snapshot(prog, w.vs)
            for ch in w.queues.values(): del ch.q[:]
            del conn['src'].written[:]
        if case.get('item'):
            ctx.result = w.run_to_completion(w.start_process(conn, item=case['item']))
        elif case.get('call'):
            ctx.result = CALLS[case['call']](ctx)
        else:
            ctx.result = w.process_line(conn, line)
        for post_call in case.get('then', []):
            ctx.then = getattr(ctx, 'then', [])
            ctx.mid = Snapshot(prog, w.vs)
            ctx.then.append(CALLS[post_call](ctx))
    except Panic as e:
        ctx.outcome = 'panic'; ctx.panic = e
        ctx.result = None
    ctx.post = Snapshot(prog, w.vs)
    ctx.written = w.written(conn) if ctx.outcome == 'ok' else [list(c.v.data) for c in conn['cell'].v.fields[0].fields[1].items]
    ctx.queues = {n: [list(s.data) for s in ch.q] for n, ch in w.queues.items()}
    ctx.quit = conn['quit'].cell.v.fields[0]
    return ctx

SETUPS = {}
JUDGES = {}

def setup(name):
    def deco(f):
        SETUPS[name] = f; return f
    return deco

CALLS = {}

def call(name):
    def deco(f):
        CALLS[name] = f; return f
    return deco


def judge(name):
    def deco(f):
        JUDGES[name] = f; return f
    return deco

def world_model(w, md):
    out = dict(w.partial)
    for k, v in w.v.items():
        val = md.eval(v, True)
        out[k] = z3.is_true(val) if z3.is_bool(val) else val.as_long()
    return out

def step_case(prog, case, budget):
    """explore all paths of one case; judge each; return picklable summary"""
    st = Stats(); findings = []; samples = []; nontriv = [0]; witnesses = []
    judges = [JUDGES[j] for j in case['judges']]
    import random
    wrng = random.Random(hash((budget.get('seed', 0), case.get('name', str(case.get('line'))))) & 0xffffffff)
    simple = isinstance(case.get('line'), str) and case.get('line') != '' and not any(k in case for k in ('item', 'prelude', 'pre_items', 'setup', 'conn_setup')) and case.get('call') in (None, 'product')
    def run(M):
        ctx = run_step(M, prog, case)
        return ctx
    def on(r):
        M = r.M
        if r.kind != 'ok':
            return
        ctx = r.value
        if M.solver.check() != z3.sat:
            st.infeasible += 1          # assumptions added late (second world of a product run) made the path infeasible
            return
        nontriv[0] += 1
        obs = []
        for j in judges:
            obs.extend(j(ctx) or [])
        # one solver query for the conjunction; split only when it fails
        sym_terms = [t for _, _, t in obs if not isinstance(t, bool)]
        all_ok = all(t for _, _, t in obs if isinstance(t, bool))
        if all_ok and sym_terms:
            okk_all, _ = check_valid(M, z3.And(sym_terms) if len(sym_terms) > 1 else sym_terms[0], None)
        else:
            okk_all = all_ok
        if okk_all:
            st.obligations += len(obs); st.discharged += len(obs)
            obs = []
        for oid, desc, term in obs:
            okk, md = check_valid(M, term, st)
            if not okk:
                if md is None: continue
                findings.append(dict(kind='obligation', site=oid, what=desc, predicate=oid,
                                     witness=dict(line=ctx.line if isinstance(ctx.line, str) else repr(ctx.line), actor=ctx.actor, world=world_model(ctx.w, md),
                                                  profile=prog.profile, case=case.get('name', ''),
                                                  written=[buf_text(b) for b in ctx.written][:12],
                                                  queues={n: [buf_text(b) for b in q][:8] for n, q in ctx.queues.items() if q},
                                                  outcome=ctx.outcome + ((': ' + str(ctx.panic)) if ctx.panic else ''))))
        if simple and okk_all and ctx.outcome == 'ok' and (len(witnesses) < 2 or wrng.random() < 0.02):
            # a passing path kept for the differential validation of the encoder (native run must give the predicted transcript)
            mdw = model_of(M)
            if mdw is not None:
                wt = dict(line=ctx.line, actor=ctx.actor, world=world_model(ctx.w, mdw), profile=prog.profile, case=case.get('name', ''))
                if len(witnesses) < 2: witnesses.append(wt)
                else: witnesses[wrng.randrange(2)] = wt
        if len(samples) < 1 and ctx.outcome == 'ok':
            md = model_of(M)
            if md is not None:
                wm = world_model(ctx.w, md)
                samples.append(dict(line=str(ctx.line), actor=ctx.actor, replies=[buf_text(b) for b in ctx.written][:6],
                                    deliveries={n: [buf_text(b) for b in q][:3] for n, q in ctx.queues.items() if q},
                                    world_true=sorted(k for k, v in wm.items() if v is True)[:40], obligations_checked=len(obs), decisions=M.pos))
    explore(prog, run, on, stats=st, prefix=case.get('prefix'), timeout_ms=budget.get('solver_ms', 10000), max_steps=budget.get('steps', 3_000_000),
            max_paths=budget.get('paths', 100000), deadline=(time.time() + budget['case_s']) if budget.get('case_s') else None)
    return dict(stats=st, findings=findings, samples=samples, nontrivial=nontriv[0], case=case.get('name', str(case.get('line'))), witnesses=witnesses)

# ---------------------------------------------------------------------------------------------- generic judges
@judge('no_panic')
def j_no_panic(ctx):
    if ctx.outcome == 'panic':
        e = ctx.panic
        from .checklib import span_text
        site = span_text(ctx.prog, e.site)
        return [('panic:' + site, f'handler panics: {e.msg} at {e.site}', False)]
    if ctx.result == 'PENDING':
        return [('stall', 'the connection task blocks forever on this input', False)]
    return []

@judge('inv')
def j_inv(ctx):
    obs = [(cid, 'Inv after the step: ' + d, t) for cid, d, t in inv_obligations(ctx.post)]
    obs += conn_identity(ctx)
    return obs

def conn_identity(ctx):
    """I9: an authenticated connection speaks under the identity of the user it owns: its source prefix is nick!~user@host of its own nick
    and equals the source recorded for that user"""
    from .world import fld
    M, prog = ctx.M, ctx.prog
    try:
        us = fld(prog, ctx.conn['cell'].v, 'user_state')
        auth = fld(prog, us, 'authenticated'); nick = fld(prog, us, 'nick'); name = fld(prog, us, 'name'); src = fld(prog, us, 'source'); host = fld(prog, us, 'hostname')
    except Exception:
        return []
    if isinstance(auth, bool) and not auth: return []
    if not (isinstance(nick.variant, int) and nick.variant == 1 and isinstance(name.variant, int) and name.variant == 1): return []
    nb, ub, sb, hb = (M.rdd(x) if isinstance(x, (Ref,)) else x for x in (nick.fields[0], name.fields[0], src, host))
    try:
        want = list(nb.data) + list(b'!~') + list(ub.data) + list(b'@') + list(hb.data)
        t = M.values_equal(src, Str(want))
    except Exception:
        return []
    obs = [('I9', 'Inv after the step: the connection\'s source prefix is nick!~user@host of its own nick', Implies(auth, t) if not isinstance(auth, bool) else t)]
    return obs
