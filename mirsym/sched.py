"""Interleaving scheduler for several connection tasks over one shared world.

Each task is a future (MainState::process of one connection).  A poll runs the task up to its next yield point:
  * an attempt to take the state lock (tokio RwLock): the task may be delayed there while other tasks run - the scheduler
    decides nondeterministically (every choice is explored) - and must wait while the lock is held incompatibly;
  * the await of a blocking job (argon2 verification in spawn_blocking).
Every other await in the handlers is on an immediately ready future (feeding the reply buffer), i.e. no yield.
All schedules of these yield points are enumerated through Machine.choose (bounded by max_switches)."""
from .values import *
from .models.tokio_m import poll_future

class Scheduler:
    def __init__(self, M, max_polls=40):
        self.M = M
        self.max_polls = max_polls
        self.current = None
        self.yielded = set()
        self.trace = []

    # hooks called by the tokio models -------------------------------------------------------------------
    def may_acquire(self, M, lockfut):
        """the lock is free: does the task get it now, or is it delayed behind other tasks (once per acquisition)"""
        k = id(lockfut)
        if k in self.yielded:
            return True
        if len(self.runnable_others()) == 0:
            return True
        self.yielded.add(k)
        if M.choose(2, 'delay_at_lock') == 1:
            self.trace.append((self.current, 'delayed at lock'))
            return False
        return True

    def yield_point(self, M, what):
        """an await that really suspends (blocking job): other tasks may run meanwhile"""
        self.trace.append((self.current, 'suspends at ' + what))
        return len(self.runnable_others()) > 0 and M.choose(2, 'suspend_' + what) == 1

    def runnable_others(self):
        return [t for t in self.tasks if not t['done'] and t['name'] != self.current]

    # driving ----------------------------------------------------------------------------------------------
    def run(self, tasks):
        """tasks: list of dict(name, fut); returns when all are done.  Raises BoundExceeded on deadlock / budget."""
        M = self.M
        self.tasks = [dict(name=t['name'], cell=Cell(t['fut']), done=False, result=None) for t in tasks]
        M.env['sched'] = self
        cx = Ref(Cell(Opaque('Context')))
        polls = 0
        stuck = 0
        try:
            while True:
                live = [t for t in self.tasks if not t['done']]
                if not live: break
                polls += 1
                if polls > self.max_polls:
                    raise BoundExceeded('scheduler poll budget')
                i = M.choose(len(live), 'next_task') if len(live) > 1 else 0
                t = live[i]
                self.current = t['name']
                r = poll_future(M, Ref(t['cell']), cx)
                if r.variant == 0:
                    t['done'] = True; t['result'] = r.fields[0]
                    self.trace.append((t['name'], 'completes'))
                    stuck = 0
                else:
                    stuck += 1
                    if stuck > 6 * len(self.tasks):
                        raise Panic('deadlock: no task can make progress')
        finally:
            M.env.pop('sched', None)
        return {t['name']: t['result'] for t in self.tasks}
