"""Reading a (symbolic) VolatileState back into relations, and the representation invariant Inv as obligations."""
import z3
from .values import *
from .world import RANKS, RANK_SETS, CHFLAGS, UMODES, fld
from .models.coll_m import SymKey

def L(x):
    return x if is_sym(x) else z3.BoolVal(bool(x))

def And(*xs):
    xs = [x for x in xs if not (isinstance(x, bool) and x)]
    if any(isinstance(x, bool) and not x for x in xs): return False
    if not xs: return True
    return z3.And([L(x) for x in xs]) if len(xs) > 1 else xs[0]

def Or(*xs):
    xs = [x for x in xs if not (isinstance(x, bool) and not x)]
    if any(isinstance(x, bool) and x for x in xs): return True
    if not xs: return False
    return z3.Or([L(x) for x in xs]) if len(xs) > 1 else xs[0]

def Not(x):
    return (not x) if isinstance(x, bool) else z3.Not(x)

def Iff(a, b):
    if isinstance(a, bool) and isinstance(b, bool): return a == b
    return L(a) == L(b)

def Implies(a, b):
    return Or(Not(a), b)

def opt_cond(o):
    v = o.variant
    if isinstance(v, int): return v == 1
    return v if z3.is_bool(v) else (v == 1)

def slots_of(h):
    """key -> (live, cell) merging duplicate keys (a key may have a dead and a live slot)"""
    out = {}
    for k, l, c in h.slots:
        if isinstance(k, SymKey):
            raise EncoderGap('symbolic key in state map')
        if k in out:
            ol, oc = out[k]
            # at most one live at a time by construction of the model; combine
            out[k] = (Or(ol, l), c if not (isinstance(l, bool) and not l) else oc)
        else:
            out[k] = (l, c)
    return out

def opt_set(o):
    """Option<HashSet> -> dict key -> live (None counts as empty)"""
    c = opt_cond(o)
    if isinstance(c, bool) and not c: return {}
    if not o.fields: return {}
    h = o.fields[0]
    return {k: And(c, l) for k, (l, _) in slots_of(h).items()}

class Snapshot:
    """relations of a VolatileState value (pre or post)"""
    def __init__(self, prog, vs):
        self.prog = prog
        f = lambda a, n: fld(prog, a, n)
        self.users = {}      # nick -> dict(live, modes{m}, away(cond), channels{c:live}, invited{c:live}, source(Str), cell)
        for n, (l, cell) in slots_of(f(vs, 'users')).items():
            u = cell.v
            modes = f(u, 'modes')
            self.users[n] = dict(live=l, modes={m: f(modes, m) for m in UMODES}, away=opt_cond(f(u, 'away')), away_val=f(u, 'away'),
                                 channels={c: x[0] for c, x in slots_of(f(u, 'channels')).items()},
                                 invited={c: x[0] for c, x in slots_of(f(u, 'invited_to')).items()},
                                 source=f(u, 'source'), name=f(u, 'name'), hostname=f(u, 'hostname'), realname=f(u, 'realname'),
                                 sender=f(u, 'sender'), quit_sender=f(u, 'quit_sender'), last_activity=f(u, 'last_activity'), cell=cell)
        self.chans = {}
        for c, (l, cell) in slots_of(f(vs, 'channels')).items():
            ch = cell.v
            modes = f(ch, 'modes')
            members = {}
            for n, (ml, mc) in slots_of(f(ch, 'users')).items():
                members[n] = dict(live=ml, ranks={r: f(mc.v, r) for r in RANKS})
            self.chans[c] = dict(live=l, members=members, preconf=f(ch, 'preconfigured'),
                                 flags={x: f(modes, x) for x in CHFLAGS},
                                 key=f(modes, 'key'), limit=f(modes, 'client_limit'), topic=f(ch, 'topic'),
                                 ban=opt_set(f(modes, 'ban')), exception=opt_set(f(modes, 'exception')), invex=opt_set(f(modes, 'invite_exception')),
                                 ranksets={r: opt_set(f(modes, RANK_SETS[r])) for r in RANKS},
                                 ban_info={k: x[0] for k, x in slots_of(f(ch, 'ban_info')).items()},
                                 default_modes=f(ch, 'default_modes'), cell=cell)
        self.wallops = {n: x[0] for n, x in slots_of(f(vs, 'wallops_users')).items()}
        self.inv_count = f(vs, 'invisible_users_count')
        self.op_count = f(vs, 'operators_count')
        self.max_count = f(vs, 'max_users_count')
        self.histories = {n: (x[0], x[1]) for n, x in slots_of(f(vs, 'nick_histories')).items()}
        self.vs = vs

    def user_live(self, n):
        u = self.users.get(n)
        return u['live'] if u else False

    def chan_live(self, c):
        ch = self.chans.get(c)
        return ch['live'] if ch else False

    def member(self, n, c):
        """n is in channels[c].users and the channel exists"""
        ch = self.chans.get(c)
        if not ch or n not in ch['members']: return False
        return And(ch['live'], ch['members'][n]['live'])

    def rank(self, n, c, r):
        ch = self.chans.get(c)
        if not ch or n not in ch['members']: return False
        return ch['members'][n]['ranks'][r]

    def user_in(self, n, c):
        """c is in users[n].channels and the user exists"""
        u = self.users.get(n)
        if not u or c not in u['channels']: return False
        return And(u['live'], u['channels'][c])

    def n_users(self):
        return bv_sum([u['live'] for u in self.users.values()])

    def n_chans(self):
        return bv_sum([c['live'] for c in self.chans.values()])

def bv_sum(bools):
    n = 0; t = None
    for b in bools:
        if isinstance(b, bool): n += 1 if b else 0
        else:
            x = z3.If(b, z3.BitVecVal(1, 64), z3.BitVecVal(0, 64))
            t = x if t is None else t + x
    if t is None: return z3.BitVecVal(n, 64)
    return t + n if n else t

def BV(x):
    return x if is_sym(x) else z3.BitVecVal(x, 64)

def inv_obligations(s, clauses=('I1', 'I3', 'I4', 'I5', 'I6', 'I7')):
    """-> list of (clause id, description, z3/bool term) that must hold of snapshot s"""
    obs = []
    nicks = set(s.users) | {n for c in s.chans.values() for n in c['members']}
    chans = set(s.chans) | {c for u in s.users.values() for c in u['channels']}
    if 'I1' in clauses:
        for n in sorted(nicks):
            for c in sorted(chans):
                obs.append(('I1', f'membership symmetry {n} / {c}', Iff(s.user_in(n, c), s.member(n, c))))
    if 'I3' in clauses:
        for c, ch in sorted(s.chans.items()):
            for r in RANKS:
                keys = set(ch['ranksets'][r]) | set(ch['members'])
                for n in sorted(keys):
                    inset = ch['ranksets'][r].get(n, False)
                    flag = And(ch['members'][n]['live'], ch['members'][n]['ranks'][r]) if n in ch['members'] else False
                    obs.append(('I3', f'rank list {r} mirrors member flag for {n} on {c}', Implies(ch['live'], Iff(inset, flag))))
    if 'I4' in clauses:
        for c, ch in sorted(s.chans.items()):
            obs.append(('I4', f'non-preconfigured channel {c} is not empty',
                        Implies(And(ch['live'], Not(ch['preconf'])), Or(*[m['live'] for m in ch['members'].values()]))))
    if 'I5' in clauses:
        for n in sorted(set(s.wallops) | set(s.users)):
            u = s.users.get(n)
            want = And(u['live'], u['modes']['wallops']) if u else False
            obs.append(('I5', f'WALLOPS audience mirrors +w for {n}', Iff(s.wallops.get(n, False), want)))
    if 'I6' in clauses:
        inv = bv_sum([And(u['live'], u['modes']['invisible']) for u in s.users.values()])
        ops = bv_sum([And(u['live'], Or(u['modes']['oper'], u['modes']['local_oper'])) for u in s.users.values()])
        obs.append(('I6', 'invisible_users_count is the number of +i users', BV(s.inv_count) == inv))
        obs.append(('I6', 'operators_count is the number of operators', BV(s.op_count) == ops))
        obs.append(('I6', 'max_users_count is at least the number of users', z3.UGE(BV(s.max_count), s.n_users())))
    if 'I7' in clauses:
        for c, ch in sorted(s.chans.items()):
            for k, l in ch['ban_info'].items():
                obs.append(('I7', f'ban_info key {k} on {c} is a ban', Implies(And(ch['live'], l), ch['ban'].get(k, False))))
    return obs
