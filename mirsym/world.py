"""Symbolic worlds for handler-level checks: a MainState whose memberships, ranks, flags, lists, counters ... are
solver variables (slot liveness / symbolic fields), built directly as the crate's own data structures.

The structures are built by *field name* from the struct definitions parsed from /repo's source, so a layout
change is either followed automatically or reported as an encoder gap - never silently misplaced.
"""
import z3
from .values import *
from .models.tokio_m import (Chan, OneShot, OneshotReceiver, FuseFuture, LineSource, mk_framed, mk_sender, mk_receiver,
                             mk_oneshot_sender, LockState, poll_future)
from .models.coll_m import live_count

RANKS = ['founder', 'protected', 'voice', 'operator', 'half_oper']
RANK_SETS = {'founder': 'founders', 'protected': 'protecteds', 'voice': 'voices', 'operator': 'operators', 'half_oper': 'half_operators'}
CHFLAGS = ['invite_only', 'moderated', 'secret', 'protected_topic', 'no_external_messages']
UMODES = ['invisible', 'oper', 'local_oper', 'registered', 'wallops']

def mk(prog, struct, **fields):
    names = prog.structs.get(struct)
    if names is None:
        raise EncoderGap(f'struct {struct} not found in the source')
    if set(names) != set(fields):
        raise EncoderGap(f'struct {struct} fields changed: source has {names}, world builder knows {sorted(fields)}')
    return Adt(struct, 0, [fields[n] for n in names])

def fld(prog, adt, name):
    return adt.fields[prog.struct_field(adt.name, name)]

def setfld(prog, adt, name, v):
    adt.fields[prog.struct_field(adt.name, name)] = v

def hset(items):
    """items: list of (key, live)"""
    h = HMap(True)
    for k, l in items: h.slots.append([k, l, Cell(Tup())])
    return h

def hmap(items):
    h = HMap(False)
    for k, l, v in items: h.slots.append([k, l, Cell(v)])
    return h

def _and(a, b):
    if isinstance(a, bool): return b if a else False
    if isinstance(b, bool): return a if b else False
    return z3.And(a, b)

def _or(a, b):
    if isinstance(a, bool): return True if a else b
    if isinstance(b, bool): return True if b else a
    return z3.Or(a, b)

def opt_sym(cond, v):
    """Option whose Some-ness is the Bool `cond`"""
    if isinstance(cond, bool): return some(v) if cond else NONE()
    return Adt('Option', z3.If(cond, z3.BitVecVal(1, 64), z3.BitVecVal(0, 64)), [v])

def bsum(bools):
    n = 0; t = None
    for b in bools:
        if isinstance(b, bool): n += 1 if b else 0
        else:
            x = z3.If(b, z3.BitVecVal(1, 64), z3.BitVecVal(0, 64))
            t = x if t is None else t + x
    if t is None: return n
    return t + n if n else t

class Spec:
    """what is symbolic in a world (defaults = the quick tier)"""
    def __init__(self, **kw):
        self.nicks = ['alice', 'bob', 'carol']
        self.hosts = {}                 # all clients connect from 127.0.0.1 (as in native replay)
        self.chans = ['#x', '&y']
        self.masks = ['a*!*@*', 'bob!*@*']           # ban / exception / invite-exception menu (relative to the nick universe)
        self.server = 'irc.irc'
        self.distinct_unames = True     # a universe user's user name (ident) differs from its nick: 'u' + nick (helper zz: zz)
        self.sym_users = False          # bob, carol, ... registered or not
        self.sym_modes = True           # user modes symbolic
        self.sym_away = True
        self.sym_invites = True
        self.sym_lists = True           # ban/exception/invex liveness
        self.sym_flags = True
        self.sym_key = True
        self.sym_limit = True
        self.sym_topic = True
        self.sym_ranks = True
        self.sym_preconf = True
        self.sym_default_modes = False
        self.sym_max_joins = True
        self.sym_caps = True
        self.sym_counters = False       # counters independent symbolic values constrained by Inv (else built as sums)
        self.sym_history = False
        self.sym_capneg = False         # a registered connection may have re-opened the capability negotiation (CAP LS / REQ after registration)
        self.history_len = 2
        self.reachable_modes = True     # user modes +O / +r only as default_user_modes gives them (they are not reachable otherwise)
        self.plain_chans = []           # channels whose attributes are concrete defaults: only existence, key and the actor's membership stay symbolic
        self.operators = []             # [(name, hash, mask|None)]
        self.cfg_users = []             # [(name, nick, hash|None, mask|None)]
        self.password = None            # server password hash
        self.default_user_modes = None  # dict or None
        self.max_connections = None
        self.keys = {'#x': 'K1', '&y': 'K1'}
        self.topic_text = 'old topic'
        self.away_text = 'gone fishing'
        self.ping_timeout = 120
        self.pong_timeout = 20
        self.realnames = {}             # nick -> realname (free text, may be multi-byte); default 'Real <nick>'
        self.__dict__.update(kw)

    def realname(self, n):
        return self.realnames.get(n, 'Real ' + n)

    def uname(self, n):
        return ('u' + n) if (self.distinct_unames and n != 'zz') else n

class World:
    def __init__(self, M, prog, spec=None, fixed=None, partial=None):
        self.M, self.prog, self.spec = M, prog, spec or Spec()
        self.fixed = fixed
        self.partial = partial or {}
        self.v = {}          # name -> z3 var
        self.queues = {}     # nick -> Chan (the user's outgoing queue = what its connection will write)
        self.kill = {}       # nick -> OneShot (quit channel)
        self.conns = {}
        self.constraints = []
        self.build()

    # symbolic variable helpers ----------------------------------------------------------------------
    def B(self, name, sym=True, default=False):
        if not sym: return default
        for pc in self.spec.plain_chans:
            if name.endswith('_' + pc) or ('_' + pc + '_') in name:
                if not (name == 'exists_' + pc or name == 'haskey_' + pc or name == f'mem_{self.spec.nicks[0]}_{pc}'):
                    return default
        if self.fixed is not None:
            return bool(self.fixed.get(name, default))
        if name in self.partial:
            return bool(self.partial[name])
        if name not in self.v: self.v[name] = z3.Bool(name)
        return self.v[name]

    def W(self, name, w=64):
        if self.fixed is not None:
            return int(self.fixed.get(name, 0))
        if name in self.partial:
            return int(self.partial[name])
        if name not in self.v: self.v[name] = z3.BitVec(name, w)
        return self.v[name]

    def T(self, name):
        """an opaque timestamp in the past (not a world variable)"""
        t = z3.BitVec('time_' + name, 64)
        self.M.assume(z3.ULE(t, z3.BitVecVal(1000, 64)))
        return t

    def source(self, n):
        return f'{n}!~{self.spec.uname(n)}@{self.spec.hosts.get(n, "127.0.0.1")}'

    # construction --------------------------------------------------------------------------------------
    def build(self):
        M, prog, sp = self.M, self.prog, self.spec
        S = lambda struct, **f: mk(prog, struct, **f)
        self.reg = {n: (self.B(f'reg_{n}', sp.sym_users and n != sp.nicks[0], True)) for n in sp.nicks}
        self.exists = {c: self.B(f'exists_{c}') for c in sp.chans}
        self.preconf = {c: self.B(f'preconf_{c}', sp.sym_preconf) for c in sp.chans}
        self.member = {(n, c): self.B(f'mem_{n}_{c}') for n in sp.nicks for c in sp.chans}
        self.rank = {(n, c, r): self.B(f'{r}_{n}_{c}', sp.sym_ranks) for n in sp.nicks for c in sp.chans for r in RANKS}
        dum0 = sp.default_user_modes or {}
        def umode_var(n, m):
            # +O and +r cannot be acquired through the protocol: they come from default_user_modes / configured users only
            if m in ('local_oper', 'registered') and sp.reachable_modes:
                return bool(dum0.get(m, False))
            if m == 'oper' and sp.reachable_modes and not sp.operators:
                return bool(dum0.get(m, False))
            return self.B(f'umode_{m}_{n}', sp.sym_modes, bool(dum0.get(m, False)))
        self.umode = {(n, m): umode_var(n, m) for n in sp.nicks for m in UMODES}
        self.away = {n: self.B(f'away_{n}', sp.sym_away) for n in sp.nicks}
        self.invited = {(n, c): self.B(f'inv_{n}_{c}', sp.sym_invites) for n in sp.nicks for c in sp.chans}
        self.flag = {(c, f): self.B(f'{f}_{c}', sp.sym_flags) for c in sp.chans for f in CHFLAGS}
        self.haskey = {c: self.B(f'haskey_{c}', sp.sym_key) for c in sp.chans}
        self.haslimit = {c: self.B(f'haslimit_{c}', sp.sym_limit) for c in sp.chans}
        self.limit = {c: self.W(f'limit_{c}') for c in sp.chans}
        self.hastopic = {c: self.B(f'hastopic_{c}', sp.sym_topic) for c in sp.chans}
        self.ban = {(c, m): self.B(f'ban_{c}_{i}', sp.sym_lists) for c in sp.chans for i, m in enumerate(sp.masks)}
        self.exc = {(c, m): self.B(f'exc_{c}_{i}', sp.sym_lists) for c in sp.chans for i, m in enumerate(sp.masks)}
        self.invex = {(c, m): self.B(f'invex_{c}_{i}', sp.sym_lists) for c in sp.chans for i, m in enumerate(sp.masks)}
        self.defmode = {(n, c, r): self.B(f'def_{r}_{n}_{c}', sp.sym_default_modes) for n in sp.nicks for c in sp.chans for r in RANKS}
        # Inv: membership only between registered users and existing channels; non-preconfigured channels are not empty
        for n in sp.nicks:
            for c in sp.chans:
                M.assume(z3.Implies(self._b(self.member[(n, c)]), z3.And(self._b(self.exists[c]), self._b(self.reg[n]))))
                # an invitation is consumed by joining and INVITE refuses members: never both
                M.assume(z3.Not(z3.And(self._b(self.member[(n, c)]), self._b(self.invited[(n, c)]))))
                M.assume(z3.Implies(self._b(self.invited[(n, c)]), z3.And(self._b(self.exists[c]), self._b(self.reg[n]))))
        for c in sp.chans:
            M.assume(z3.Implies(z3.And(self._b(self.exists[c]), z3.Not(self._b(self.preconf[c]))), z3.Or([self._b(self.member[(n, c)]) for n in sp.nicks])))
            if sp.sym_default_modes:
                for n in sp.nicks:
                    for r in RANKS:
                        M.assume(z3.Implies(self._b(self.defmode[(n, c, r)]), self._b(self.preconf[c])))
        # users ------------------------------------------------------------------------------------
        users = HMap(False)
        self.user_cells = {}
        for n in sp.nicks:
            ch = Chan(n); self.queues[n] = ch
            os_ = OneShot('kill_' + n); self.kill[n] = os_
            modes = S('UserModes', **{m: self.umode[(n, m)] for m in UMODES})
            u = S('User', hostname=mkstring(sp.hosts.get(n, '127.0.0.1')), sender=mk_sender(ch), quit_sender=some(mk_oneshot_sender(os_)),
                  name=mkstring(sp.uname(n)), realname=mkstring(sp.realname(n)), source=mkstring(self.source(n)), modes=modes,
                  away=opt_sym(self.away[n], mkstring(sp.away_text)),
                  channels=hset([(c, self.member[(n, c)]) for c in sp.chans]),
                  invited_to=hset([(c, self.invited[(n, c)]) for c in sp.chans]),
                  last_activity=self.T('act_' + n), signon=self.T('signon_' + n),
                  history_entry=S('NickHistoryEntry', username=mkstring(sp.uname(n)), hostname=mkstring(sp.hosts.get(n, '127.0.0.1')), realname=mkstring(sp.realname(n)), signon=self.T('signon_' + n)))        # (User::new: the record carries the user's own sign-on time)
            cell = Cell(u); self.user_cells[n] = cell
            users.slots.append([n, self.reg[n], cell])
        M.env['wall_min'] = z3.BitVecVal(1000, 64)
        # channels ---------------------------------------------------------------------------------
        channels = HMap(False)
        self.chan_cells = {}
        for c in sp.chans:
            def rs(r):
                return some(hset([(n, _and(self.member[(n, c)], self.rank[(n, c, r)])) for n in sp.nicks]))
            modes = S('ChannelModes',
                      ban=some(hset([(m, self.ban[(c, m)]) for m in sp.masks])),
                      exception=some(hset([(m, self.exc[(c, m)]) for m in sp.masks])),
                      client_limit=opt_sym(self.haslimit[c], self.limit[c]),
                      invite_exception=some(hset([(m, self.invex[(c, m)]) for m in sp.masks])),
                      key=opt_sym(self.haskey[c], mkstring(sp.keys[c])),
                      operators=rs('operator'), half_operators=rs('half_oper'), voices=rs('voice'), founders=rs('founder'), protecteds=rs('protected'),
                      invite_only=self.flag[(c, 'invite_only')], moderated=self.flag[(c, 'moderated')], secret=self.flag[(c, 'secret')],
                      protected_topic=self.flag[(c, 'protected_topic')], no_external_messages=self.flag[(c, 'no_external_messages')])
            dm = S('ChannelDefaultModes', **{RANK_SETS[r]: hset([(n, self.defmode[(n, c, r)]) for n in sp.nicks]) for r in RANKS})
            topic = S('ChannelTopic', topic=mkstring(sp.topic_text), nick=mkstring('zz'), set_time=self.T('topic_' + c))
            cu = hmap([(n, self.member[(n, c)], S('ChannelUserModes', **{r: self.rank[(n, c, r)] for r in RANKS})) for n in sp.nicks])
            chn = S('Channel', topic=opt_sym(self.hastopic[c], topic), modes=modes, default_modes=dm,
                    ban_info=hmap([(m, self.ban[(c, m)], S('BanInfo', set_time=self.T('ban_' + c + '_' + m), who=mkstring('zz'))) for m in sp.masks]),
                    users=cu, creation_time=self.T('created_' + c), preconfigured=self.preconf[c])
            cell = Cell(chn); self.chan_cells[c] = cell
            channels.slots.append([c, self.exists[c], cell])
        # counters -----------------------------------------------------------------------------------
        inv_count = bsum([_and(self.reg[n], self.umode[(n, 'invisible')]) for n in sp.nicks])
        op_count = bsum([_and(self.reg[n], _or(self.umode[(n, 'oper')], self.umode[(n, 'local_oper')])) for n in sp.nicks])
        nusers = bsum([self.reg[n] for n in sp.nicks])
        if sp.sym_counters and self.fixed is None:
            self.c_inv, self.c_op, self.c_max = self.W('cnt_invisible'), self.W('cnt_operators'), self.W('cnt_max_users')
            M.assume(self.c_inv == inv_count); M.assume(self.c_op == op_count)
            M.assume(z3.UGE(self.c_max, nusers if is_sym(nusers) else z3.BitVecVal(nusers, 64)))
            M.assume(z3.ULT(self.c_max, z3.BitVecVal(1 << 40, 64)))
        elif self.fixed is not None:
            self.c_inv, self.c_op = inv_count, op_count
            self.c_max = z3.BitVec('cnt_max_users', 64)      # the helper user of the native replay makes this opaque
            M.assume(z3.UGE(self.c_max, z3.BitVecVal(nusers, 64) if not is_sym(nusers) else nusers))
            M.assume(z3.ULT(self.c_max, z3.BitVecVal(1 << 40, 64)))
        else:
            self.c_inv, self.c_op = inv_count, op_count
            self.c_max = self.W('cnt_max_users')
            M.assume(z3.UGE(self.c_max, nusers if is_sym(nusers) else z3.BitVecVal(nusers, 64)))
            M.assume(z3.ULT(self.c_max, z3.BitVecVal(1 << 40, 64)))
        hist = HMap(False)
        if sp.sym_history:
            # the nick 'oldnick' was used (history_len times) by the replay helper before: entries as its renames leave them
            for n in ['oldnick']:
                hist.slots.append([n, self.B('hist_' + n), Cell(VecV([S('NickHistoryEntry', username=mkstring('zz'), hostname=mkstring('127.0.0.1'), realname=mkstring('Real zz'), signon=self.T(f'hsignon_old{i}'))
                                                                         for i in range(sp.history_len)]))])
        self.server_quit = OneShot('server_quit')
        vs = S('VolatileState', users=users, channels=channels,
               wallops_users=hset([(n, _and(self.reg[n], self.umode[(n, 'wallops')])) for n in sp.nicks]),
               invisible_users_count=self.c_inv, operators_count=self.c_op, max_users_count=self.c_max,
               nick_histories=hist, quit_sender=some(mk_oneshot_sender(self.server_quit)), quit_receiver=NONE())
        self.vs = vs
        # config -------------------------------------------------------------------------------------
        self.max_joins_some = self.B('has_max_joins', sp.sym_max_joins)
        self.max_joins = self.W('max_joins')
        dum = sp.default_user_modes or {}
        opers = [S('OperatorConfig', name=mkstring(o[0]), password=mkstring(o[1]), mask=(some(mkstring(o[2])) if o[2] else NONE())) for o in sp.operators]
        cusers = [S('UserConfig', name=mkstring(u[0]), nick=mkstring(u[1]), password=(some(mkstring(u[2])) if u[2] else NONE()),
                    mask=(some(mkstring(u[3])) if u[3] else NONE())) for u in sp.cfg_users]
        cfg = S('MainConfig', name=mkstring(sp.server), admin_info=mkstring('admin info'), admin_info2=NONE(), admin_email=NONE(),
                info=mkstring('server info'), motd=mkstring('Hello, world!'), listen=Opaque('ip', b'127.0.0.1'), port=6667,
                network=mkstring('IRCnetwork'), password=(some(mkstring(sp.password)) if sp.password else NONE()),
                max_connections=(some(sp.max_connections) if sp.max_connections is not None else NONE()),
                max_joins=opt_sym(self.max_joins_some, self.max_joins),
                ping_timeout=sp.ping_timeout, pong_timeout=sp.pong_timeout, dns_lookup=False,
                default_user_modes=S('UserModes', **{m: dum.get(m, False) for m in UMODES}),
                log_file=NONE(), log_level=Opaque('Level'), tls=NONE(),
                operators=(some(VecV(opers)) if opers else NONE()), users=(some(VecV(cusers)) if cusers else NONE()), channels=NONE())
        self.conns_count = BoxV(Cell(Adt('Atomic', 0, [len(sp.nicks)])), 'Arc')
        ncmd = 41
        main = S('MainState', config=cfg,
                 user_config_idxs=hmap([(u[0], True, i) for i, u in enumerate(sp.cfg_users)]),
                 oper_config_idxs=hmap([(o[0], True, i) for i, o in enumerate(sp.operators)]),
                 conns_count=self.conns_count, state=Adt('RwLock', 0, [vs, LockState()]),
                 created=mkstring('<created>'), created_time=Adt('DateTime', 0, [500]),
                 command_counts=Tup(Adt('Atomic', 0, [0]) for _ in range(ncmd)))
        self.main = main
        self.main_cell = Cell(main)

    def _b(self, x):
        return x if is_sym(x) else z3.BoolVal(bool(x))

    # connections -----------------------------------------------------------------------------------------
    def add_conn(self, nick=None, registered=True, name=None, password=None, caps_negotation=False, authenticated=None, user_registered=False, key=None):
        """a ConnState; for a registered user it is wired to that user's queue and quit channel"""
        prog, sp = self.prog, self.spec
        S = lambda struct, **f: mk(prog, struct, **f)
        key = key or nick or 'anon'
        if registered:
            ch = self.queues[nick]; kill = self.kill[nick]
            sender = NONE(); quit_sender = NONE()
        else:
            ch = Chan('conn_' + key); kill = OneShot('kill_conn_' + key)
            sender = some(mk_sender(ch)); quit_sender = some(mk_oneshot_sender(kill))
            self.queues.setdefault('conn:' + key, ch); self.kill.setdefault('conn:' + key, kill)
        host = sp.hosts.get(nick or 'dave', '127.0.0.1')
        uname = name if name is not None else (sp.uname(nick) if registered else None)
        src = ''
        if nick: src += nick + '!'
        if uname: src += '~' + uname
        src += '@' + host
        us = S('ConnUserState', ip_addr=Opaque('ip', host.encode()), hostname=mkstring(host),
               name=(some(mkstring(uname)) if uname else NONE()), realname=(some(mkstring('Real ' + (nick if (registered and name is None) else uname))) if uname else NONE()),
               nick=(some(mkstring(nick)) if nick else NONE()), source=mkstring(src),
               password=(some(mkstring(password)) if password else NONE()),
               authenticated=(registered if authenticated is None else authenticated), registered=user_registered)
        line_src = LineSource()
        ping_ch, tmo_ch = Chan('ping_' + key), Chan('timeout_' + key)
        dns = OneShot('dns'); dns.tx_dropped = True
        mp = self.B('multi_prefix_' + key, sp.sym_caps)
        quit_flag = BoxV(Cell(Adt('Atomic', 0, [0])), 'Arc')
        fields = dict(stream=S('BufferedLineStream', stream=mk_framed(line_src), buffer=VecV()),
                      sender=sender, receiver=mk_receiver(ch),
                      ping_sender=(NONE() if registered else some(mk_sender(ping_ch))), ping_receiver=mk_receiver(ping_ch),
                      timeout_sender=BoxV(Cell(mk_sender(tmo_ch)), 'Arc'), timeout_receiver=mk_receiver(tmo_ch),
                      pong_notifier=(VecV() if 'VecDeque' in self.prog.struct_field_types.get(('ConnState', 'pong_notifier'), '') else NONE()), quit_receiver=FuseFuture(OneshotReceiver(kill)), quit_sender=quit_sender,
                      dns_lookup_receiver=FuseFuture(OneshotReceiver(dns)),
                      user_state=us, caps_negotation=(self.B('capneg_' + key, True) if (registered and sp.sym_capneg) else caps_negotation), caps=S('CapState', multi_prefix=mp),
                      quit=quit_flag, conns_count=self.conns_count)
        if 'dns_lookup_sender' in prog.structs.get('ConnState', []):
            fields['dns_lookup_sender'] = NONE()
        cs = S('ConnState', **fields)
        cell = Cell(cs)
        info = dict(cell=cell, src=line_src, quit=quit_flag, ping=ping_ch, tmo=tmo_ch, ch=ch, kill=kill, key=key)
        self.conns[key] = info
        return info

    # running ----------------------------------------------------------------------------------------------
    def start_process(self, conn, line=None, item=None):
        """queue one incoming item on the connection and create the MainState::process future"""
        M, prog = self.M, self.prog
        if line is not None:
            item = ('line', line if isinstance(line, StringV) else mkstring(line))
        if item is not None:
            conn['src'].items.append(item)
        name = prog.resolve_crate_fn('state::MainState::process')
        if name is None: raise EncoderGap('MainState::process not found')
        return M.run_fn(name, [Ref(self.main_cell), Ref(conn['cell'])])

    def run_to_completion(self, fut, max_polls=50):
        M = self.M
        cell = Cell(fut)
        cx = Ref(Cell(Opaque('Context')))
        for _ in range(max_polls):
            r = poll_future(M, Ref(cell), cx)
            if r.variant == 0:
                return r.fields[0]
            # Pending with nothing that could wake the task: it would hang
            return 'PENDING'
        raise BoundExceeded('poll budget')

    def process_line(self, conn, line):
        return self.run_to_completion(self.start_process(conn, line))

    def written(self, conn):
        """lines this connection's task wrote to its socket (after flush), as byte lists"""
        return [list(s.data) for s in conn['src'].written]

    def queued(self, nick):
        """messages queued to a user's connection by others (and not yet forwarded)"""
        return [list(s.data) for s in self.queues[nick].q]
